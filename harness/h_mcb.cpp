// Recorder for the exact entry points (C01 C02 C08 C09, and C03 when built against real oneTBB or
// the vtbb shim).  For every input graph and every selected algorithm / weight type it runs the
// unmodified library and writes the observable behaviour  Call ; Emit* ; Return | Crash  as ndjson.
#include "arena.hpp"
#include "common.hpp"
#include <set>
#include <parmcb/config.hpp>
#include <parmcb/parmcb.hpp>
#include <boost/iterator/function_output_iterator.hpp>
static bool g_no_emit = false;
static bool g_log_forest = false;       // add the spanning forest of ForestIndex (public API) to the Call event
static bool g_positional = false;        // --positional: every third input also with a positional output iterator
static int g_layouts = 1;               // number of memory layouts (address orders of the edge nodes) per graph
static std::size_t g_node_size = 0;

template<class Graph> std::size_t probe_node_size() {
    Graph g(2);
    varena::t_nrec = 0; varena::t_recording = true;
    auto e = boost::add_edge(0, 1, g).first;
    varena::t_recording = false;
    char *prop = (char *) e.get_property();
    for (int i = 0; i < varena::t_nrec; i++) {
        char *b = (char *) varena::t_rec_ptr[i];
        if (prop >= b && prop < b + varena::t_rec_size[i]) return varena::t_rec_size[i];
    }
    return 0;
}

using namespace vh;

template<class Graph>
struct Runner {
    typedef typename boost::graph_traits<Graph>::edge_descriptor Edge;
    typedef typename boost::property_map<Graph, boost::edge_weight_t>::const_type WMap;
    typedef typename boost::property_traits<WMap>::value_type W;

    // layout 0 = whatever malloc gives; layout 1 = edge nodes in reverse address order; >= 2 = seeded random order
    static void run(const InGraph &in, const std::string &algo, const char *wt, long tol, const std::string &meta_in, int layout = 0, bool positional = false) {
        Built<Graph> b;
        std::string meta = meta_in;
        if (layout == 0) build(in, b);
        else {
            size_t m = in.edges.size();
            std::vector<std::size_t> perm(m);
            for (size_t i = 0; i < m; i++) perm[i] = (layout == 1) ? m - 1 - i : i;
            if (layout >= 2) { unsigned long s = (unsigned long) in.id * 2654435761UL + (unsigned long) layout * 40503UL + 7; for (size_t i = m; i > 1; i--) { s ^= s << 13; s ^= s >> 7; s ^= s << 17; std::swap(perm[i - 1], perm[s % i]); } }
            varena::t_node_size = probe_node_size<Graph>();
            build(in, b, [&](size_t i) { varena::t_slot = varena::slot_addr(0, perm[i]); varena::t_armed = true; },
                         [&](size_t) { varena::t_armed = false; varena::t_slot = nullptr; });
            std::set<Edge> all(b.edge_of.begin(), b.edge_of.end());
            std::vector<long> realised; for (auto &e : all) realised.push_back(b.idx(e) - 1);
            std::vector<long> want(m); for (size_t i = 0; i < m; i++) want[i] = (long) i;
            std::sort(want.begin(), want.end(), [&](long a, long c) { return perm[(size_t) a] < perm[(size_t) c]; });
            if (realised != want) { emit(J().s("e", "LayoutError").i("id", in.id).str()); return; }
            meta = meta.empty() ? std::string("{\"layout\":") + std::to_string(layout) + "}" : meta.substr(0, meta.size() - 1) + ",\"layout\":" + std::to_string(layout) + "}";
        }
#ifdef VTBB_SHIM
        // all regions of this call run under a seeded random schedule (different per item and algorithm)
        vtbb::ctl().begin_call(); vtbb::ctl().mode = 1; vtbb::ctl().seed = (std::uint64_t) in.id * 2654435761ULL + std::hash<std::string>()(algo);
#endif
        if (positional) meta = meta.empty() ? std::string("{\"sink\":\"positional\"}") : meta.substr(0, meta.size() - 1) + ",\"sink\":\"positional\"}";
        J c;
        c.s("e", "Call").s("algo", algo).s("wt", wt).i("id", in.id).i("n", in.n).raw("edges", edges_json(in)).i("den", in.den).i("tol", tol);
        if (!meta.empty()) c.raw("meta", meta);
        if (g_log_forest) {
            parmcb::ForestIndex<Graph> fi(b.g);
            std::vector<long> fe;
            for (size_t i = 0; i < b.edge_of.size(); i++) if (fi.is_on_forest(b.edge_of[i])) fe.push_back((long) i + 1);
            c.arr("forest", fe);
        }
        emit(c.str());
        const Graph &g = b.g;
        auto wm = boost::get(boost::edge_weight, g);
        long ncyc = 0;
        auto sink = boost::make_function_output_iterator([&](const std::list<Edge> &cyc) {
            ncyc++;
            if (g_no_emit) return;
            std::vector<long> idx;
            for (auto &e : cyc) idx.push_back(b.idx(e));
            emit(J().s("e", "Emit").arr("cyc", idx).str());
        });
        // positional sink: an iterator into a pre-sized vector, as a caller that knows m - n + c would use (a copy of the
        // iterator that is not advanced overwrites earlier cycles); the caller then finds the non-empty slots
        std::vector<std::list<Edge>> slots(positional ? in.edges.size() + 8 : 0);
        try {
            W ret;
            if (positional) {
                auto ps = slots.begin();
                if (algo == "signed") ret = parmcb::mcb_sva_signed(g, wm, ps);
                else if (algo == "fvs") ret = parmcb::mcb_sva_fvs_trees(g, wm, ps);
                else if (algo == "iso") ret = parmcb::mcb_sva_iso_trees(g, wm, ps);
#ifdef PARMCB_HAVE_TBB
                else if (algo == "signed_tbb") ret = parmcb::mcb_sva_signed_tbb(g, wm, ps);
                else if (algo == "fvs_tbb") ret = parmcb::mcb_sva_fvs_trees_tbb(g, wm, ps);
                else if (algo == "iso_tbb") ret = parmcb::mcb_sva_iso_trees_tbb(g, wm, ps);
#endif
                else { emit(J().s("e", "Crash").s("what", "unknown algo " + algo).str()); return; }
                for (auto &sl : slots) if (!sl.empty()) {
                    ncyc++;
                    if (g_no_emit) continue;
                    std::vector<long> idx; for (auto &e : sl) idx.push_back(b.idx(e));
                    emit(J().s("e", "Emit").arr("cyc", idx).str());
                }
            }
            else if (algo == "signed") ret = parmcb::mcb_sva_signed(g, wm, sink);
            else if (algo == "fvs") ret = parmcb::mcb_sva_fvs_trees(g, wm, sink);
            else if (algo == "iso") ret = parmcb::mcb_sva_iso_trees(g, wm, sink);
#ifdef PARMCB_HAVE_TBB
            else if (algo == "signed_tbb") ret = parmcb::mcb_sva_signed_tbb(g, wm, sink);
            else if (algo == "fvs_tbb") ret = parmcb::mcb_sva_fvs_trees_tbb(g, wm, sink);
            else if (algo == "iso_tbb") ret = parmcb::mcb_sva_iso_trees_tbb(g, wm, sink);
#endif
            else { emit(J().s("e", "Crash").s("what", "unknown algo " + algo).str()); return; }
            long ri, fr;
            scaled((double) ret, in.den, ri, fr);
            emit(J().s("e", "Return").i("ret", ri).i("frac", fr).i("tol", tol).i("ncyc", ncyc).str());
        } catch (const std::exception &ex) {
            emit(J().s("e", "Crash").s("what", std::string("exception: ") + ex.what()).str());
        } catch (...) {
            emit(J().s("e", "Crash").s("what", "unknown exception").str());
        }
    }
};

int main(int argc, char **argv) {
    const char *in = arg_value(argc, argv, "--in", nullptr);
    const char *out = arg_value(argc, argv, "--out", nullptr);
    auto algos = split(arg_value(argc, argv, "--algos", "signed,fvs,iso"), ',');
    auto types = split(arg_value(argc, argv, "--types", "double,int"), ',');
    long start = atol(arg_value(argc, argv, "--start", "0"));
    long tol = atol(arg_value(argc, argv, "--tol", "0"));
    int per_call_timeout = atoi(arg_value(argc, argv, "--call-timeout", "60"));
    g_no_emit = has_flag(argc, argv, "--no-emit");
    g_log_forest = has_flag(argc, argv, "--forest");
    g_layouts = atoi(arg_value(argc, argv, "--layouts", "1"));
    g_positional = has_flag(argc, argv, "--positional");
    if (!in || !out) { fprintf(stderr, "usage: h_mcb --in F --out F [--algos a,b] [--types double,int] [--start k]\n"); return 2; }
    g_out = fopen(out, start > 0 ? "a" : "w");
    if (!g_out) { perror("open out"); return 2; }
    install_handlers();
    auto graphs = read_graphs(in);
    for (size_t k = (size_t) start; k < graphs.size(); k++) {
        g_current_item = (long) k; set_crash_context(graphs[k].raw);
        const InGraph &g = graphs[k];
        for (auto &a : algos) for (auto &t : types) {
            alarm(per_call_timeout);
            std::string meta;
            if (!g.extra.empty()) { meta = "{"; for (size_t q = 0; q < g.extra.size(); q++) { auto kv = split(g.extra[q], '='); if (kv.size() == 2) { if (meta.size() > 1) meta += ","; meta += "\"" + kv[0] + "\":" + kv[1]; } } meta += "}"; }
            for (int lay = 0; lay < g_layouts; lay++) {
                if (g.edges.size() > 2000 && lay > 0) break;
                if (t == "double") Runner<GraphD>::run(g, a, "double", tol, meta, lay);
                else if (t == "int" && g.den == 1) Runner<GraphI>::run(g, a, "int", tol, meta, lay);
            }
            if (g_positional && g.id % 3 == 0 && g.edges.size() <= 2000) {      // every third input additionally through a positional output iterator
                if (t == "double") Runner<GraphD>::run(g, a, "double", tol, meta, 0, true);
                else if (t == "int" && g.den == 1) Runner<GraphI>::run(g, a, "int", tol, meta, 0, true);
            }
            alarm(0);
        }
    }
    fclose(g_out);
    return 0;
}
