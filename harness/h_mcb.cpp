// Recorder for the exact entry points (C01 C02 C08 C09, and C03 when built against real oneTBB or
// the vtbb shim).  For every input graph and every selected algorithm / weight type it runs the
// unmodified library and writes the observable behaviour  Call ; Emit* ; Return | Crash  as ndjson.
#include "common.hpp"
#include <parmcb/config.hpp>
#include <parmcb/parmcb.hpp>
#include <boost/iterator/function_output_iterator.hpp>
static bool g_no_emit = false;

using namespace vh;

template<class Graph>
struct Runner {
    typedef typename boost::graph_traits<Graph>::edge_descriptor Edge;
    typedef typename boost::property_map<Graph, boost::edge_weight_t>::const_type WMap;
    typedef typename boost::property_traits<WMap>::value_type W;

    static void run(const InGraph &in, const std::string &algo, const char *wt, long tol, const std::string &meta) {
        Built<Graph> b;
        build(in, b);
#ifdef VTBB_SHIM
        // all regions of this call run under a seeded random schedule (different per item and algorithm)
        vtbb::ctl().begin_call(); vtbb::ctl().mode = 1; vtbb::ctl().seed = (std::uint64_t) in.id * 2654435761ULL + std::hash<std::string>()(algo);
#endif
        J c;
        c.s("e", "Call").s("algo", algo).s("wt", wt).i("id", in.id).i("n", in.n).raw("edges", edges_json(in)).i("den", in.den).i("tol", tol);
        if (!meta.empty()) c.raw("meta", meta);
        emit(c.str());
        const Graph &g = b.g;
        auto wm = boost::get(boost::edge_weight, g);
        long ncyc = 0;
        auto sink = boost::make_function_output_iterator([&](const std::list<Edge> &cyc) {
            ncyc++;
            if (g_no_emit) return;
            std::vector<long> idx;
            for (auto &e : cyc) idx.push_back(b.idx(e));
            emit(J().s("e", "Emit").arr("cyc", idx).str());
        });
        try {
            W ret;
            if (algo == "signed") ret = parmcb::mcb_sva_signed(g, wm, sink);
            else if (algo == "fvs") ret = parmcb::mcb_sva_fvs_trees(g, wm, sink);
            else if (algo == "iso") ret = parmcb::mcb_sva_iso_trees(g, wm, sink);
#ifdef PARMCB_HAVE_TBB
            else if (algo == "signed_tbb") ret = parmcb::mcb_sva_signed_tbb(g, wm, sink);
            else if (algo == "fvs_tbb") ret = parmcb::mcb_sva_fvs_trees_tbb(g, wm, sink);
            else if (algo == "iso_tbb") ret = parmcb::mcb_sva_iso_trees_tbb(g, wm, sink);
#endif
            else { emit(J().s("e", "Crash").s("what", "unknown algo " + algo).str()); return; }
            long ri, fr;
            scaled((double) ret, in.den, ri, fr);
            emit(J().s("e", "Return").i("ret", ri).i("frac", fr).i("tol", tol).i("ncyc", ncyc).str());
        } catch (const std::exception &ex) {
            emit(J().s("e", "Crash").s("what", std::string("exception: ") + ex.what()).str());
        } catch (...) {
            emit(J().s("e", "Crash").s("what", "unknown exception").str());
        }
    }
};

int main(int argc, char **argv) {
    const char *in = arg_value(argc, argv, "--in", nullptr);
    const char *out = arg_value(argc, argv, "--out", nullptr);
    auto algos = split(arg_value(argc, argv, "--algos", "signed,fvs,iso"), ',');
    auto types = split(arg_value(argc, argv, "--types", "double,int"), ',');
    long start = atol(arg_value(argc, argv, "--start", "0"));
    long tol = atol(arg_value(argc, argv, "--tol", "0"));
    int per_call_timeout = atoi(arg_value(argc, argv, "--call-timeout", "60"));
    g_no_emit = has_flag(argc, argv, "--no-emit");
    if (!in || !out) { fprintf(stderr, "usage: h_mcb --in F --out F [--algos a,b] [--types double,int] [--start k]\n"); return 2; }
    g_out = fopen(out, start > 0 ? "a" : "w");
    if (!g_out) { perror("open out"); return 2; }
    install_handlers();
    auto graphs = read_graphs(in);
    for (size_t k = (size_t) start; k < graphs.size(); k++) {
        g_current_item = (long) k;
        const InGraph &g = graphs[k];
        for (auto &a : algos) for (auto &t : types) {
            alarm(per_call_timeout);
            std::string meta;
            if (!g.extra.empty()) { meta = "{"; for (size_t q = 0; q < g.extra.size(); q++) { auto kv = split(g.extra[q], '='); if (kv.size() == 2) { if (meta.size() > 1) meta += ","; meta += "\"" + kv[0] + "\":" + kv[1]; } } meta += "}"; }
            if (t == "double") Runner<GraphD>::run(g, a, "double", tol, meta);
            else if (t == "int" && g.den == 1) Runner<GraphI>::run(g, a, "int", tol, meta);
            alarm(0);
        }
    }
    fclose(g_out);
    return 0;
}
