// Recorder for the approximate entry points (C05 C06) and for the intermediate spanner (C15, through the
// PARMCB_VERIF accessors).  Cycles are projected to the caller's edge indices only AFTER the call has
// returned and the algorithm object is gone, so a descriptor that does not belong to the caller's graph
// shows up as index 0 (it is never dereferenced).
#include "common.hpp"
#include <parmcb/config.hpp>
#include <parmcb/parmcb.hpp>
#ifdef VERIF_VTBB
#include "vtbb_control.hpp"
#endif

using namespace vh;

template<class Graph> struct Approx {
    typedef typename boost::graph_traits<Graph>::edge_descriptor Edge;
    typedef typename boost::property_map<Graph, boost::edge_weight_t>::type WMap;   // the approximate entry points only instantiate with the non-const map type
    typedef typename boost::property_traits<WMap>::value_type W;
    typedef std::back_insert_iterator<std::list<std::list<Edge>>> OutIt;

    // the entry points take any output iterator: a back_inserter (every copy of it appends to the same list) and a positional
    // iterator into a pre-sized vector (a copy that is not advanced overwrites), as a caller that knows m - n + c would use
    template<class It> static bool invoke(const std::string &algo, const Graph &g, WMap &wm, long k, It out, W &ret) {
        if (algo == "approx_signed") ret = parmcb::approx_mcb_sva_signed(g, wm, (std::size_t) k, out);
        else if (algo == "approx_fvs") ret = parmcb::approx_mcb_sva_fvs_trees(g, wm, (std::size_t) k, out);
        else if (algo == "approx_iso") ret = parmcb::approx_mcb_sva_iso_trees(g, wm, (std::size_t) k, out);
#ifdef PARMCB_HAVE_TBB
        else if (algo == "approx_signed_tbb") ret = parmcb::approx_mcb_sva_signed_tbb(g, wm, (std::size_t) k, out);
        else if (algo == "approx_fvs_tbb") ret = parmcb::approx_mcb_sva_fvs_trees_tbb(g, wm, (std::size_t) k, out);
        else if (algo == "approx_iso_tbb") ret = parmcb::approx_mcb_sva_iso_trees_tbb(g, wm, (std::size_t) k, out);
#endif
        else return false;
        return true;
    }

    static void call(const InGraph &in, const std::string &algo, const char *wt, long k, const std::string &meta, bool positional = false) {
        Built<Graph> b; build(in, b);
        J c; c.s("e", "Call").s("algo", algo).s("wt", wt).i("id", in.id).i("n", in.n).raw("edges", edges_json(in)).i("den", in.den).i("k", k).i("tol", 0);
        if (!meta.empty()) c.raw("meta", meta); else if (positional) c.raw("meta", "{\"sink\":\"positional\"}");
        emit(c.str());
        const Graph &g = b.g;
        WMap wm = boost::get(boost::edge_weight, b.g);
        std::list<std::list<Edge>> cycles;
        std::vector<std::list<Edge>> slots(positional ? in.edges.size() + 8 : 0);
        bool threw = false; std::string what;
        W ret = W();
        try {
            bool known = positional ? invoke(algo, g, wm, k, slots.begin(), ret) : invoke(algo, g, wm, k, std::back_inserter(cycles), ret);
            if (!known) { emit(J().s("e", "Crash").s("what", "unknown algo " + algo).str()); return; }
        } catch (const std::exception &ex) { threw = true; what = ex.what(); }
        catch (...) { threw = true; what = "non-std exception"; }
        if (positional) for (auto &sl : slots) if (!sl.empty()) cycles.push_back(sl);      // what the caller finds in its vector
        // the call has returned: project what the caller holds
        for (auto &cyc : cycles) {
            std::vector<long> idx;
            for (auto &e : cyc) idx.push_back(b.idx(e));
            emit(J().s("e", "Emit").arr("cyc", idx).str());
        }
        if (threw) { emit(J().s("e", "Threw").s("what", what).str()); return; }
        long ri, fr; scaled((double) ret, in.den, ri, fr);
        emit(J().s("e", "Return").i("ret", ri).i("frac", fr).i("tol", 0).str());
    }

    struct NullExact { W operator()(const Graph &, const WMap &, OutIt) { return W(); } };

    static void spanner(const InGraph &in, const char *wt, long k) {
        Built<Graph> b; build(in, b);
        const Graph &g = b.g;
        WMap wm = boost::get(boost::edge_weight, b.g);
        typedef parmcb::detail::mcb_sva_signed<Graph, WMap, OutIt> Exact;
        parmcb::detail::BaseApproxSpannerAlgorithm<Graph, WMap, Exact, false> algo(g, wm, boost::get(boost::vertex_index, g), (std::size_t) k);
        const Graph &sp = algo.verif_spanner();
        auto swm = boost::get(boost::edge_weight, sp);
        const auto &tr = algo.verif_edge_spanner_to_g();
        std::vector<std::string> kept;
        for (auto ei = boost::edges(sp); ei.first != ei.second; ++ei.first) {
            auto se = *ei.first;
            auto it = tr.find(se);
            long gi = it == tr.end() ? 0 : b.idx(it->second);
            long ri, fr; scaled((double) boost::get(swm, se), in.den, ri, fr);
            std::ostringstream o; o << "[" << gi << "," << boost::source(se, sp) << "," << boost::target(se, sp) << "," << (fr == 0 ? ri : -2) << "]";
            kept.push_back(o.str());
        }
        std::vector<long> dropped;
        for (auto &e : algo.verif_non_spanner_edges()) dropped.push_back(b.idx(e));
        emit(J().s("e", "Spanner").s("wt", wt).i("id", in.id).i("n", in.n).raw("edges", edges_json(in)).i("den", in.den).i("k", k)
                 .i("sn", (long) boost::num_vertices(sp)).arr("kept", kept).arr("dropped", dropped).str());
    }
};

int main(int argc, char **argv) {
    const char *in = arg_value(argc, argv, "--in", nullptr);
    const char *out = arg_value(argc, argv, "--out", nullptr);
    auto algos = split(arg_value(argc, argv, "--algos", "approx_signed,approx_fvs,approx_iso"), ',');
    auto types = split(arg_value(argc, argv, "--types", "double,int"), ',');
    auto ks = split(arg_value(argc, argv, "--ks", "1,2,3"), ',');
    bool do_spanner = has_flag(argc, argv, "--spanner");
    long start = atol(arg_value(argc, argv, "--start", "0"));
    if (!in || !out) return 2;
    g_out = fopen(out, start > 0 ? "a" : "w");
    if (!g_out) return 2;
    install_handlers();
    auto graphs = read_graphs(in);
    for (size_t i = (size_t) start; i < graphs.size(); i++) {
        g_current_item = (long) i; set_crash_context(graphs[i].raw);
        const InGraph &g = graphs[i];
        for (auto &ksz : ks) for (auto &t : types) {
            long k = atol(ksz.c_str());
            bool isint = (t == "int");
            if (isint && g.den != 1) continue;
            alarm(60);
            try {
                if (do_spanner) { if (k >= 1) { if (isint) Approx<GraphI>::spanner(g, "int", k); else Approx<GraphD>::spanner(g, "double", k); } }
                else for (auto &a : algos) {
                    if (isint) Approx<GraphI>::call(g, a, "int", k, ""); else Approx<GraphD>::call(g, a, "double", k, "");
                    if (k >= 1 && (g.id + k) % 2 == 0) { if (isint) Approx<GraphI>::call(g, a, "int", k, "", true); else Approx<GraphD>::call(g, a, "double", k, "", true); }
                }
            } catch (const std::exception &ex) {
                emit(J().s("e", "Crash").s("what", std::string("exception: ") + ex.what()).i("id", g.id).i("n", g.n).raw("edges", edges_json(g)).i("den", g.den).i("k", k).str());
            } catch (...) {
                emit(J().s("e", "Crash").s("what", "unknown exception").i("id", g.id).i("n", g.n).raw("edges", edges_json(g)).i("den", g.den).i("k", k).str());
            }
            alarm(0);
        }
    }
    fclose(g_out);
    return 0;
}
