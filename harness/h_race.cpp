// Recorder for the data-race clause of C03: the six TBB entry points compiled against the THREADED shim (shim/ttbb) with
// clang++ -fsanitize=thread.  Every parallel region runs its sub-ranges on real threads; ThreadSanitizer writes one report per
// pair of conflicting unsynchronised accesses (log files <out>.tsan.*), which the driver turns into Race events.
#include "common.hpp"
#include <parmcb/config.hpp>
#include <parmcb/parmcb.hpp>
using namespace vh;

template<class Graph> static void run(const InGraph &in, const std::string &algo, long k) {
    typedef typename boost::graph_traits<Graph>::edge_descriptor Edge;
    Built<Graph> b; build(in, b);
    const Graph &g = b.g;
    auto wm = boost::get(boost::edge_weight, b.g);
    std::list<std::list<Edge>> cycles;
    double ret = 0;
    if (algo == "signed_tbb") ret = (double) parmcb::mcb_sva_signed_tbb(g, wm, std::back_inserter(cycles));
    else if (algo == "fvs_tbb") ret = (double) parmcb::mcb_sva_fvs_trees_tbb(g, wm, std::back_inserter(cycles));
    else if (algo == "iso_tbb") ret = (double) parmcb::mcb_sva_iso_trees_tbb(g, wm, std::back_inserter(cycles));
    else if (algo == "approx_signed_tbb") ret = (double) parmcb::approx_mcb_sva_signed_tbb(g, wm, (std::size_t) k, std::back_inserter(cycles));
    else if (algo == "approx_fvs_tbb") ret = (double) parmcb::approx_mcb_sva_fvs_trees_tbb(g, wm, (std::size_t) k, std::back_inserter(cycles));
    else if (algo == "approx_iso_tbb") ret = (double) parmcb::approx_mcb_sva_iso_trees_tbb(g, wm, (std::size_t) k, std::back_inserter(cycles));
    long ri, fr; scaled(ret, in.den, ri, fr);
    emit(J().s("e", "Ran").s("algo", algo).i("id", in.id).i("n", in.n).i("m", (long) in.edges.size()).i("k", k).i("ncyc", (long) cycles.size()).i("ret", ri).str());
}

int main(int argc, char **argv) {
    const char *in = arg_value(argc, argv, "--in", nullptr);
    const char *out = arg_value(argc, argv, "--out", nullptr);
    auto algos = split(arg_value(argc, argv, "--algos", "signed_tbb,fvs_tbb,iso_tbb,approx_signed_tbb,approx_fvs_tbb,approx_iso_tbb"), ',');
    if (!in || !out) return 2;
    g_out = fopen(out, "w");
    if (!g_out) return 2;
    auto graphs = read_graphs(in);
    for (auto &g : graphs) for (auto &a : algos) {
        try { run<GraphD>(g, a, 2); }
        catch (const std::exception &ex) { emit(J().s("e", "Crash").s("what", std::string("exception: ") + ex.what()).s("algo", a).i("id", g.id).str()); }
    }
    fclose(g_out);
    return 0;
}
