// Recorder for the component-level properties: ForestIndex (C16), greedy_fvs (C13), shortest path
// trees (C12), candidate cycle collections (C14).  One event per input graph and mode; the event is
// the projection of the component's public state, decided by TLC against Components.tla.
#include "common.hpp"
#include <parmcb/config.hpp>
#include <parmcb/parmcb.hpp>
#include <parmcb/detail/fvs.hpp>
#include <parmcb/detail/cycles.hpp>

using namespace vh;

template<class Graph> struct Comp {
    typedef typename boost::graph_traits<Graph>::edge_descriptor Edge;
    typedef typename boost::graph_traits<Graph>::vertex_descriptor Vertex;
    typedef typename boost::property_map<Graph, boost::edge_weight_t>::const_type WMap;
    typedef typename boost::property_traits<WMap>::value_type W;

    static std::string head(const char *ev, const InGraph &in, const char *wt, J &j) {
        j.s("e", ev).s("wt", wt).i("id", in.id).i("n", in.n).raw("edges", edges_json(in)).i("den", in.den);
        return "";
    }

    static void forest(const InGraph &in, const char *wt) {
        Built<Graph> b; build(in, b);
        J j; head("Forest", in, wt, j);
        parmcb::ForestIndex<Graph> fi(b.g);
        std::vector<long> idx, rev, onf, back;
        size_t m = in.edges.size();
        for (size_t i = 0; i < m; i++) {
            std::size_t raw = fi(b.edge_of[i]);
            long ix = raw > 1000000 ? -1 : (long) raw;      // a wrapped / wild value must stay inside TLC's 32-bit integers
            idx.push_back(ix);
            onf.push_back(fi.is_on_forest(b.edge_of[i]) ? 1 : 0);
        }
        for (size_t i = 0; i < m; i++) rev.push_back(b.idx(fi(i)));          // index -> edge (1-based, 0 foreign)
        std::size_t kraw = fi.weak_connected_components();
        j.arr("idx", idx).arr("rev", rev).arr("onforest", onf).i("k", kraw > 1000000 ? -1 : (long) kraw);
        // csd as a signed value so that a wrapped size_t is visible instead of overflowing TLC's ints
        size_t csd = fi.cycle_space_dimension();
        j.i("csd", csd > 1000000 ? -1 : (long) csd);
        // copy semantics of the index object (copy-construct, assign)
        parmcb::ForestIndex<Graph> fc(fi);
        bool same = fc.cycle_space_dimension() == fi.cycle_space_dimension() && fc.weak_connected_components() == fi.weak_connected_components();
        for (size_t i = 0; i < m && same; i++) same = fc(b.edge_of[i]) == fi(b.edge_of[i]) && b.idx(fc(i)) == b.idx(fi(i));
        j.b("copy_same", same);
        // assignment: an index built for ANOTHER graph (different component count) overwritten by this one, and self-assignment
        Graph aux(5);
        boost::add_edge(0, 1, aux);
        parmcb::ForestIndex<Graph> fa(aux);
        fa = fi;
        fa = *&fa;
        bool asame = fa.cycle_space_dimension() == fi.cycle_space_dimension() && fa.weak_connected_components() == fi.weak_connected_components();
        for (size_t i = 0; i < m && asame; i++) asame = fa(b.edge_of[i]) == fi(b.edge_of[i]) && b.idx(fa(i)) == b.idx(fi(i)) && fa.is_on_forest(b.edge_of[i]) == fi.is_on_forest(b.edge_of[i]);
        j.b("assign_same", asame);
        // the same edge reached from its other endpoint (out_edges of the target): lookups must not depend on the orientation
        bool osame = true;
        for (size_t i = 0; i < m && osame; i++) {
            auto pr = boost::edge((Vertex) in.edges[i].v, (Vertex) in.edges[i].u, b.g);
            if (!pr.second) continue;
            if (b.idx(pr.first) != (long) i + 1) continue;            // (never for a simple graph: another parallel edge was found)
            osame = fi(pr.first) == fi(b.edge_of[i]) && fi.is_on_forest(pr.first) == fi.is_on_forest(b.edge_of[i]);
        }
        j.b("orient_same", osame);
        emit(j.str());
    }

    static void fvs(const InGraph &in, const char *wt) {
        Built<Graph> b; build(in, b);
        J j; head("Fvs", in, wt, j);
        std::vector<Vertex> out;
        parmcb::greedy_fvs(b.g, std::back_inserter(out));
        std::vector<long> o(out.begin(), out.end());
        for (auto &x : o) if (x < 0 || x > 1000000) x = -1;
        j.arr("out", o);
        emit(j.str());
    }

    // ForestIndex on families with more than 2^8 / 2^16 vertices or edges: the edge list is implied by (family, a, b)
    //   path a: 0-1-...-(a-1);  star a: 0-i, i = 1..a-1;  cycle a;  twocycles a: two disjoint cycles of length a;
    //   matching a b: a vertices, b disjoint edges (2i, 2i+1)        edges are numbered 1.. in the order listed here
    static void forest_family(const InGraph &in, const std::string &fam, long a, long b) {
        InGraph syn; syn.id = in.id; syn.den = 1;
        auto E = [&](long u, long v) { InEdge e; e.u = (int) u; e.v = (int) v; e.w = 1; syn.edges.push_back(e); };
        if (fam == "path") { syn.n = (int) a; for (long i = 0; i + 1 < a; i++) E(i, i + 1); }
        else if (fam == "star") { syn.n = (int) a; for (long i = 1; i < a; i++) E(0, i); }
        else if (fam == "cycle") { syn.n = (int) a; for (long i = 0; i < a; i++) E(i, (i + 1) % a); }
        else if (fam == "twocycles") { syn.n = (int) (2 * a); for (long i = 0; i < a; i++) E(i, (i + 1) % a); for (long i = 0; i < a; i++) E(a + i, a + (i + 1) % a); }
        else { syn.n = (int) a; for (long i = 0; i < b; i++) E(2 * i, 2 * i + 1); }
        Built<Graph> bb; build(syn, bb);
        parmcb::ForestIndex<Graph> fi(bb.g);
        size_t m = syn.edges.size();
        std::vector<long> idx, rev, onf;
        for (size_t i = 0; i < m; i++) { std::size_t raw = fi(bb.edge_of[i]); idx.push_back(raw > 100000000 ? -1 : (long) raw); onf.push_back(fi.is_on_forest(bb.edge_of[i]) ? 1 : 0); }
        for (size_t i = 0; i < m; i++) rev.push_back(bb.idx(fi(i)));
        std::size_t kraw = fi.weak_connected_components(), csd = fi.cycle_space_dimension();
        emit(J().s("e", "ForestFam").s("fam", fam).i("id", in.id).i("a", a).i("b", b).i("n", syn.n).arr("idx", idx).arr("rev", rev).arr("onforest", onf)
                 .i("k", kraw > 100000000 ? -1 : (long) kraw).i("csd", csd > 100000000 ? -1 : (long) csd).str());
    }

    // families too large to log edge by edge (degrees beyond 2^8 / 2^16): the graph is described by (family, a, b) and TLC
    // decides the clauses with the family's closed form (Components!FvsFamViol)
    //   wheel a   : hub 0, rim 1..a (a cycle), a spokes
    //   hubtri a b: hub 0, a triangles (0, 2i-1, 2i), b leaves 2a+1..2a+b
    static void fvs_family(const InGraph &in, const std::string &fam, long a, long b) {
        Graph g;
        if (fam == "wheel") {
            for (long i = 0; i <= a; i++) boost::add_vertex(g);
            for (long i = 1; i <= a; i++) { boost::add_edge(0, (size_t) i, g); boost::add_edge((size_t) i, (size_t) (i % a + 1), g); }
        } else {
            for (long i = 0; i <= 2 * a + b; i++) boost::add_vertex(g);
            for (long i = 1; i <= a; i++) { boost::add_edge(0, (size_t) (2 * i - 1), g); boost::add_edge((size_t) (2 * i - 1), (size_t) (2 * i), g); boost::add_edge((size_t) (2 * i), 0, g); }
            for (long i = 1; i <= b; i++) boost::add_edge(0, (size_t) (2 * a + i), g);
        }
        std::vector<Vertex> out;
        parmcb::greedy_fvs(g, std::back_inserter(out));
        std::vector<long> o(out.begin(), out.end());
        for (auto &x : o) if (x < 0 || x > 100000000) x = -1;
        emit(J().s("e", "FvsFam").s("fam", fam).i("id", in.id).i("a", a).i("b", b).arr("out", o).str());
    }

    typedef parmcb::SPTree<Graph, WMap> Tree;

    static std::string tree_json(const InGraph &in, Built<Graph> &b, Tree &t) {
        std::vector<long> dist, pred, first;
        for (int v = 0; v < in.n; v++) {
            auto nd = t.node(v);
            if (!nd) { dist.push_back(-1); pred.push_back(0); first.push_back(-1); continue; }
            long ri, fr; scaled((double) nd->weight(), in.den, ri, fr);
            dist.push_back(fr == 0 ? ri : -2);
            pred.push_back(nd->has_pred() ? b.idx(nd->pred()) : 0);
            first.push_back((long) t.first(v));
        }
        J j; j.i("s", (long) t.source()).arr("dist", dist).arr("pred", pred).arr("first", first);
        return j.str();
    }

    // shortest-path trees on stars with more than 2^8 / 2^16 vertices (shallow on purpose: lex_dijkstra labels carry the vertex set
    // of the whole path).  star2 a: a star on 0..a-1 (centre 0) and a second one on a..2a-1 (centre a), edge i joins the centre
    // and the i-th leaf in the order built here; b = weight of every edge; sources: the centre, the first and the last leaf
    static void spt_family(const InGraph &in, const std::string &fam, long a, long b, const char *wt) {
        InGraph syn; syn.id = in.id; syn.den = 1; syn.n = (int) (fam == "star2" ? 2 * a : a);
        auto E = [&](long u, long v) { InEdge e; e.u = (int) u; e.v = (int) v; e.w = b; syn.edges.push_back(e); };
        for (long i = 1; i < a; i++) E(0, i);
        if (fam == "star2") for (long i = 1; i < a; i++) E(a, a + i);
        Built<Graph> bb; build(syn, bb);
        const Graph &g = bb.g;
        WMap wm = boost::get(boost::edge_weight, g);
        auto im = boost::get(boost::vertex_index, g);
        std::vector<std::string> ts;
        for (long s : {0L, 1L, a - 1}) { Tree t((size_t) s, g, im, wm, (Vertex) s); ts.push_back(tree_json(syn, bb, t)); }
        emit(J().s("e", "SptFam").s("fam", fam).s("wt", wt).i("id", in.id).i("a", a).i("b", b).i("n", syn.n).arr("trees", ts).str());
    }

    static void spt(const InGraph &in, const char *wt) {
        Built<Graph> b; build(in, b);
        J j; head("Spt", in, wt, j);
        const Graph &g = b.g;
        WMap wm = boost::get(boost::edge_weight, g);
        auto im = boost::get(boost::vertex_index, g);
        std::vector<std::string> ts;
        for (int s = 0; s < in.n; s++) {
            Tree t((size_t) s, g, im, wm, (Vertex) s);
            ts.push_back(tree_json(in, b, t));
        }
        j.arr("trees", ts);
        emit(j.str());
    }

    template<class Builder> static std::string coll_json(const InGraph &in, Built<Graph> &b, const Graph &g, const WMap &wm) {
        std::vector<Tree> trees;
        std::vector<parmcb::CandidateCycle<Graph, WMap>> cycles;
        Builder builder;
        builder(g, wm, trees, cycles);
        std::vector<std::string> ts, cs;
        for (auto &t : trees) ts.push_back(tree_json(in, b, t));
        for (auto &c : cycles) {
            long ri, fr; scaled((double) c.weight(), in.den, ri, fr);
            long root = c.tree() < trees.size() ? (long) trees[c.tree()].source() : -1;
            std::ostringstream o; o << "[" << root << "," << b.idx(c.edge()) << "," << (fr == 0 ? ri : -2) << "]";
            cs.push_back(o.str());
        }
        J j; j.arr("trees", ts).arr("cands", cs);
        return j.str();
    }

    static void coll(const InGraph &in, const char *wt) {
        Built<Graph> b; build(in, b);
        J j; head("Coll", in, wt, j);
        const Graph &g = b.g;
        WMap wm = boost::get(boost::edge_weight, g);
        j.raw("horton", coll_json<parmcb::detail::HortonCyclesBuilder<Graph, WMap>>(in, b, g, wm));
        j.raw("fvs", coll_json<parmcb::detail::FVSCyclesBuilder<Graph, WMap>>(in, b, g, wm));
        j.raw("iso", coll_json<parmcb::detail::ISOCyclesBuilder<Graph, WMap>>(in, b, g, wm));
        emit(j.str());
    }
};

template<class Graph> void run_mode(const std::string &mode, const InGraph &g, const char *wt) {
    try {
        std::string fam; long fa = 0, fb = 0;
        for (auto &t : g.extra) { auto kv = split(t, '='); if (kv.size() == 2) { if (kv[0] == "fam") fam = kv[1]; else if (kv[0] == "a") fa = atol(kv[1].c_str()); else if (kv[0] == "b") fb = atol(kv[1].c_str()); } }
        if (!fam.empty()) { if (mode == "fvs") Comp<Graph>::fvs_family(g, fam, fa, fb); else if (mode == "forest") Comp<Graph>::forest_family(g, fam, fa, fb); else if (mode == "spt") Comp<Graph>::spt_family(g, fam, fa, fb, wt); return; }
        if (mode == "forest") Comp<Graph>::forest(g, wt);
        else if (mode == "fvs") Comp<Graph>::fvs(g, wt);
        else if (mode == "spt") Comp<Graph>::spt(g, wt);
        else if (mode == "coll") Comp<Graph>::coll(g, wt);
    } catch (const std::exception &ex) {
        emit(J().s("e", "Crash").s("mode", mode).i("id", g.id).i("n", g.n).raw("edges", edges_json(g)).i("den", g.den).s("what", std::string("exception: ") + ex.what()).str());
    } catch (...) {
        emit(J().s("e", "Crash").s("mode", mode).i("id", g.id).i("n", g.n).raw("edges", edges_json(g)).i("den", g.den).s("what", "unknown exception").str());
    }
}

int main(int argc, char **argv) {
    const char *in = arg_value(argc, argv, "--in", nullptr);
    const char *out = arg_value(argc, argv, "--out", nullptr);
    auto modes = split(arg_value(argc, argv, "--modes", "forest"), ',');
    auto types = split(arg_value(argc, argv, "--types", "double"), ',');
    long start = atol(arg_value(argc, argv, "--start", "0"));
    if (!in || !out) return 2;
    g_out = fopen(out, start > 0 ? "a" : "w");
    if (!g_out) return 2;
    install_handlers();
    auto graphs = read_graphs(in);
    for (size_t k = (size_t) start; k < graphs.size(); k++) {
        g_current_item = (long) k; set_crash_context(graphs[k].raw);
        for (auto &m : modes) for (auto &t : types) {
            alarm(60);
            if (t == "double") run_mode<GraphD>(m, graphs[k], "double");
            else if (graphs[k].den == 1) run_mode<GraphI>(m, graphs[k], "int");
            alarm(0);
        }
    }
    fclose(g_out);
    return 0;
}
