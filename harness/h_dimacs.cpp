// Recorder for C10: read_dimacs_from_file on concrete renderings of abstract files, and the three validators
// on explicit multigraphs.  Input lines:
//   READ <path> <abstract-file-json-without-spaces>
//   G <id> <n> <m> <den> (u v w)*          (validators; loops / parallel edges / non-positive weights allowed)
#include "common.hpp"
#include <system_error>
#include <parmcb/config.hpp>
#include <parmcb/parmcb.hpp>
#include <parmcb/util.hpp>

using namespace vh;

int main(int argc, char **argv) {
    const char *in = arg_value(argc, argv, "--in", nullptr);
    const char *out = arg_value(argc, argv, "--out", nullptr);
    long start = atol(arg_value(argc, argv, "--start", "0"));
    if (!in || !out) return 2;
    g_out = fopen(out, start > 0 ? "a" : "w");
    if (!g_out) return 2;
    install_handlers();
    std::ifstream f(in);
    std::string line; long ln = -1;
    while (std::getline(f, line)) {
        ln++;
        if (ln < start) continue;
        g_current_item = ln; set_crash_context(line);
        alarm(30);
        if (line.compare(0, 5, "READ ") == 0) {
            std::istringstream is(line); std::string tag, path, abs; is >> tag >> path >> abs;
            GraphD g;
            bool threw = false; std::string what;
            FILE *fp = fopen(path.c_str(), "r");
            if (!fp) { emit(J().s("e", "Crash").s("what", "cannot open " + path).str()); continue; }
            try { parmcb::read_dimacs_from_file(fp, g); } catch (const std::exception &ex) { threw = true; what = ex.what(); } catch (...) { threw = true; what = "?"; }
            fclose(fp);
            std::ostringstream es; es << "[";
            bool first = true;
            auto wm = boost::get(boost::edge_weight, g);
            for (auto ei = boost::edges(g); ei.first != ei.second; ++ei.first) {
                if (!first) es << ","; first = false;
                double w = boost::get(wm, *ei.first);      // logged in 1/1000 units; -999999999 unless it is that multiple of 0.001 up to double rounding (a value that went through single precision is not)
                long long w1000 = std::llround(w * 1000.0);
                es << "[" << boost::source(*ei.first, g) << "," << boost::target(*ei.first, g) << "," << (std::fabs(w * 1000.0 - (double) w1000) <= 1e-9 * std::max(1.0, std::fabs((double) w1000)) && std::llabs(w1000) < 2000000000LL ? w1000 : -999999999LL) << "]";
            }
            es << "]";
            emit(J().s("e", "Read").raw("file", abs).b("threw", threw).s("what", what).i("n", (long) boost::num_vertices(g)).raw("edges", es.str()).s("path", path).str());
        } else {
            InGraph ig;
            if (!parse_graph(line, ig)) continue;
            GraphD g;
            for (int i = 0; i < ig.n; i++) boost::add_vertex(g);
            auto wm = boost::get(boost::edge_weight, g);
            // weight = w / den * 10^exp10 (extra token exp10=<int>): the sign is that of w also for magnitudes far below 1
            double scale = 1.0;
            for (auto &t : ig.extra) { auto kv = split(t, '='); if (kv.size() == 2 && kv[0] == "exp10") scale = std::pow(10.0, atof(kv[1].c_str())); }
            for (auto &e : ig.edges) { auto ed = boost::add_edge(e.u, e.v, g).first; wm[ed] = (double) e.w / (double) ig.den * scale; }
            bool l = parmcb::has_loops(g), m = parmcb::has_multiple_edges(g), np = parmcb::has_non_positive_weights(g, boost::get(boost::edge_weight, g));
            emit(J().s("e", "Valid").i("n", ig.n).raw("edges", edges_json(ig)).b("loops", l).b("multi", m).b("nonpos", np).str());
        }
        alarm(0);
    }
    fclose(g_out);
    return 0;
}
