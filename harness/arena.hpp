// Layout arena: makes "how a process lays the graph out in memory" an explicit input.  The order of
// boost edge descriptors (operator< in boost/graph/detail/edge.hpp) is the address order of the edge
// property nodes, so std::set<edge_descriptor> iterates in heap-address order.  This file replaces the
// global operator new/delete: while placement is armed (only around the caller's add_edge), the one
// allocation whose size is the edge-list node size is served from a per-thread arena at the slot the
// harness chose; everything else goes to malloc.  The harness verifies afterwards that the realised
// std::set order is the requested permutation and reports a LayoutError (never a violation) otherwise.
#ifndef VERIF_ARENA_HPP
#define VERIF_ARENA_HPP
#include <cstdlib>
#include <new>
#include <cstddef>

namespace varena {
static const std::size_t SLOT = 64, SLOTS = 2048, BLOCKS = 40;
alignas(64) static char g_region[BLOCKS][SLOTS * SLOT];
static thread_local bool t_armed = false;
static thread_local std::size_t t_node_size = 0;
static thread_local void *t_slot = nullptr;
static thread_local bool t_recording = false;
static thread_local int t_nrec = 0;
static thread_local void *t_rec_ptr[64];
static thread_local std::size_t t_rec_size[64];
inline bool in_region(void *p) { return (char *) p >= &g_region[0][0] && (char *) p < &g_region[0][0] + sizeof(g_region); }
inline void *slot_addr(int block, std::size_t slot) { return &g_region[block % (int) BLOCKS][(slot % SLOTS) * SLOT]; }
}

void *operator new(std::size_t sz) {
    if (varena::t_armed && varena::t_slot && sz == varena::t_node_size) { void *p = varena::t_slot; varena::t_slot = nullptr; return p; }
    void *p = std::malloc(sz ? sz : 1);
    if (!p) throw std::bad_alloc();
    if (varena::t_recording && varena::t_nrec < 64) { varena::t_rec_ptr[varena::t_nrec] = p; varena::t_rec_size[varena::t_nrec] = sz; varena::t_nrec++; }
    return p;
}
void *operator new[](std::size_t sz) { return operator new(sz); }
void operator delete(void *p) noexcept { if (p && !varena::in_region(p)) std::free(p); }
void operator delete[](void *p) noexcept { operator delete(p); }
void operator delete(void *p, std::size_t) noexcept { operator delete(p); }
void operator delete[](void *p, std::size_t) noexcept { operator delete(p); }
#endif
