// Shared plumbing of the conformance harnesses: input parsing, graph construction in a
// prescribed insertion order, projection of library objects to the abstract state used by
// the TLA+ specifications (edge -> 1-based insertion index by pointer identity), ndjson
// output, crash/timeout capture.  Deliberately trivial: it is part of the trusted base.
#ifndef VERIF_COMMON_HPP
#define VERIF_COMMON_HPP

#include <algorithm>
#include <cmath>
#include <csignal>
#include <cstdio>
#include <cstdlib>
#include <cstring>
#include <fstream>
#include <functional>
#include <iostream>
#include <list>
#include <map>
#include <sstream>
#include <string>
#include <unistd.h>
#include <vector>

#include <boost/graph/adjacency_list.hpp>
#include <boost/property_map/property_map.hpp>

namespace vh {

typedef boost::adjacency_list<boost::vecS, boost::vecS, boost::undirectedS, boost::no_property,
        boost::property<boost::edge_weight_t, double> > GraphD;
typedef boost::adjacency_list<boost::vecS, boost::vecS, boost::undirectedS, boost::no_property,
        boost::property<boost::edge_weight_t, int> > GraphI;

struct InEdge { int u, v; long w; };
struct InGraph {
    long id = 0;
    int n = 0;
    long den = 1;              // real weight = w / den
    std::vector<InEdge> edges; // insertion order
    std::vector<std::string> extra; // trailing tokens (per-harness meaning)
    std::string raw;                // the input line as read
};

// line format:  G <id> <n> <m> <den> (u v w)*m [extra tokens...]
inline bool parse_graph(const std::string &line, InGraph &g) {
    std::istringstream is(line);
    std::string tag;
    if (!(is >> tag) || tag != "G") return false;
    long m;
    if (!(is >> g.id >> g.n >> m >> g.den)) return false;
    g.edges.clear();
    for (long i = 0; i < m; i++) {
        InEdge e;
        if (!(is >> e.u >> e.v >> e.w)) return false;
        g.edges.push_back(e);
    }
    g.extra.clear();
    std::string t;
    while (is >> t) g.extra.push_back(t);
    return true;
}

inline std::vector<InGraph> read_graphs(const char *path) {
    std::vector<InGraph> r;
    std::ifstream in(path);
    std::string line;
    while (std::getline(in, line)) {
        InGraph g;
        if (parse_graph(line, g)) { g.raw = line; r.push_back(g); }
    }
    return r;
}

// --- output -------------------------------------------------------------------------------
static FILE *g_out = stdout;
inline void emit(const std::string &s) {
    fputs(s.c_str(), g_out);
    fputc('\n', g_out);
    fflush(g_out);
}

struct J { // tiny JSON object writer
    std::ostringstream o;
    bool first = true;
    J() { o << "{"; }
    void key(const char *k) { if (!first) o << ","; first = false; o << "\"" << k << "\":"; }
    J &s(const char *k, const std::string &v) {
        key(k); o << "\"";
        for (char c : v) { if (c == '"' || c == '\\') o << '\\' << c; else if (c == '\n') o << "\\n"; else if ((unsigned char) c < 32) o << ' '; else o << c; }
        o << "\""; return *this; }
    J &i(const char *k, long v) { key(k); o << v; return *this; }
    J &b(const char *k, bool v) { key(k); o << (v ? "true" : "false"); return *this; }
    J &raw(const char *k, const std::string &v) { key(k); o << v; return *this; }
    template<class It> J &arr(const char *k, It b, It e) { key(k); o << "["; bool f = true; for (; b != e; ++b) { if (!f) o << ","; f = false; o << *b; } o << "]"; return *this; }
    template<class C> J &arr(const char *k, const C &c) { return arr(k, c.begin(), c.end()); }
    std::string str() { return o.str() + "}"; }
};

inline std::string edges_json(const InGraph &g) {
    std::ostringstream o;
    o << "[";
    for (size_t i = 0; i < g.edges.size(); i++) {
        if (i) o << ",";
        o << "[" << g.edges[i].u << "," << g.edges[i].v << "," << g.edges[i].w << "]";
    }
    o << "]";
    return o.str();
}

// --- building the boost graph and projecting edge descriptors -----------------------------
template<class Graph> struct Built {
    typedef typename boost::graph_traits<Graph>::edge_descriptor Edge;
    Graph g;
    std::vector<Edge> edge_of;            // index-1 -> descriptor
    std::map<const void*, long> index_of; // property node address -> 1-based index
    long idx(const Edge &e) const {       // 0 = not an edge of this graph (never dereferenced)
        auto it = index_of.find(e.get_property());
        return it == index_of.end() ? 0 : it->second;
    }
};

template<class W> inline W make_weight(long w, long den);
template<> inline double make_weight<double>(long w, long den) { return (double) w / (double) den; }
template<> inline int make_weight<int>(long w, long) { return (int) w; }

template<class Graph> void build(const InGraph &in, Built<Graph> &b,
        std::function<void(size_t)> before_add = nullptr, std::function<void(size_t)> after_add = nullptr) {
    typedef typename boost::property_traits<typename boost::property_map<Graph, boost::edge_weight_t>::type>::value_type W;
    for (int i = 0; i < in.n; i++) boost::add_vertex(b.g);
    auto wm = boost::get(boost::edge_weight, b.g);
    for (size_t i = 0; i < in.edges.size(); i++) {
        if (before_add) before_add(i);
        auto e = boost::add_edge(in.edges[i].u, in.edges[i].v, b.g).first;
        if (after_add) after_add(i);
        wm[e] = make_weight<W>(in.edges[i].w, in.den);
        b.edge_of.push_back(e);
    }
    // descriptors of a vecS graph stay valid; (re)compute the address map at the end
    for (size_t i = 0; i < b.edge_of.size(); i++) b.index_of[b.edge_of[i].get_property()] = (long) i + 1;
}

// returned value as nearest scaled integer + fraction in 1e-9 units (see Mcb.tla Close)
inline void scaled(double ret, long den, long &ri, long &frac) {
    long double x = (long double) ret * (long double) den;
    if (!(std::fabs((double) x) < 2.0e9)) { ri = -1; frac = 999999999; return; }
    ri = std::llround((double) x);
    long double f = (x - (long double) ri) * 1e9L;
    frac = std::llround((double) f);
}

// --- crash / timeout capture -----------------------------------------------------------------
static volatile long g_current_item = -1;
static char g_crash_ctx[3000] = "";     // raw input line of the item being processed (no quotes/backslashes), for the Crash event
inline void set_crash_context(const std::string &line) {
    size_t k = 0;
    for (char c : line) { if (k + 1 >= sizeof g_crash_ctx) break; g_crash_ctx[k++] = (c == '"' || c == '\\' || (unsigned char) c < 32) ? ' ' : c; }
    g_crash_ctx[k] = 0;
}
inline void fatal_handler(int sig) {
    char buf[3400];
    int n = snprintf(buf, sizeof buf, "{\"e\":\"Crash\",\"what\":\"signal %d\",\"item\":%ld,\"ctx\":\"%s\"}\n", sig, (long) g_current_item, g_crash_ctx);
    if (n > 0) { ssize_t r = write(fileno(g_out), buf, (size_t) n); (void) r; }
    _exit(sig == SIGALRM ? 4 : 3);
}
inline void install_handlers() {
    signal(SIGSEGV, fatal_handler); signal(SIGABRT, fatal_handler); signal(SIGFPE, fatal_handler);
    signal(SIGBUS, fatal_handler); signal(SIGILL, fatal_handler); signal(SIGALRM, fatal_handler);
    std::set_terminate([]() { fatal_handler(SIGABRT); });
}

inline const char *arg_value(int argc, char **argv, const char *name, const char *dflt) {
    for (int i = 1; i + 1 < argc; i++) if (!strcmp(argv[i], name)) return argv[i + 1];
    return dflt;
}
inline bool has_flag(int argc, char **argv, const char *name) {
    for (int i = 1; i < argc; i++) if (!strcmp(argv[i], name)) return true;
    return false;
}
inline std::vector<std::string> split(const std::string &s, char c) {
    std::vector<std::string> r; std::string cur;
    for (char ch : s) { if (ch == c) { if (!cur.empty()) r.push_back(cur); cur.clear(); } else cur += ch; }
    if (!cur.empty()) r.push_back(cur);
    return r;
}

} // namespace vh
#endif
