// C11 (depth): the MPI demo's own main() (renamed by the preprocessor, source given by -DDEMO_SRC) executed by P rank
// threads on the vmpi + vtbb shims.  Unlike a real mpiexec job this shows every rank's exit status and attributes a
// hang to the collective in which ranks are left waiting (vmpi reports Deadlock instead of blocking).
//   h_mpidemo --out F --P n -- <demo arguments...>      (the demo's stdout / stderr are this process's)
#include "common.hpp"
#define main demo_main
#include DEMO_SRC
#undef main
#ifndef VTBB_SHIM
#error "compile against the vtbb and vmpi shims"
#endif
int main(int argc, char **argv) {
    const char *out = vh::arg_value(argc, argv, "--out", nullptr);
    int P = atoi(vh::arg_value(argc, argv, "--P", "2"));
    int sep = 0; for (int i = 1; i < argc; i++) if (!strcmp(argv[i], "--")) { sep = i; break; }
    if (!out || !sep) return 2;
    std::vector<int> rc((size_t) P, -1);
    vmpi::World world;
    auto errs = vmpi::run(world, P, [&](int r) {
        std::vector<std::string> store; store.push_back(argv[0]); for (int i = sep + 1; i < argc; i++) store.push_back(argv[i]);
        std::vector<char *> av; for (auto &s : store) av.push_back(&s[0]);
        rc[(size_t) r] = demo_main((int) av.size(), av.data());
    });
    vh::g_out = fopen(out, "w");
    std::vector<std::string> ranks;
    for (int r = 0; r < P; r++) ranks.push_back(vh::J().i("rank", r).i("rc", rc[(size_t) r]).s("err", errs[(size_t) r]).str());
    vh::emit(vh::J().s("e", "MpiDemoRun").i("P", P).arr("ranks", ranks).i("collectives", world.collectives).str());
    fclose(vh::g_out);
    return 0;
}
