// Recorder for C20, part A: set_global_tbb_concurrency on the real oneTBB.  One process = one history.
//   h_conc --out F  n1 R n2 R ...     (number = set_global_tbb_concurrency(number); R = run a parallel region;
//                                      a suffix i/u/l/h/q passes the number as int/unsigned/long/unsigned short/unsigned long long)
#include "common.hpp"
#include <parmcb/config.hpp>
#include <parmcb/util.hpp>
#include <tbb/global_control.h>
#include <tbb/parallel_for.h>
#include <atomic>
using namespace vh;
int main(int argc, char **argv) {
    const char *out = arg_value(argc, argv, "--out", nullptr);
    if (!out) return 2;
    g_out = fopen(out, "w");
    install_handlers();
    emit(J().s("e", "Reset").str());
    for (int i = 3; i < argc; i++) {
        std::string a = argv[i];
        if (a == "R") {
            std::atomic<long> sum(0);
            size_t act = tbb::global_control::active_value(tbb::global_control::max_allowed_parallelism);
            tbb::parallel_for(tbb::blocked_range<size_t>(0, 1000), [&](const tbb::blocked_range<size_t> &r) { for (size_t k = r.begin(); k != r.end(); ++k) sum += (long) k; });
            emit(J().s("e", "Region").i("active", (long) act).str());
        } else {
            // an optional suffix selects the integral type of the argument expression (a caller may hold the number as any of them)
            long n = atol(a.c_str());
            char ty = a.empty() ? 'z' : a[a.size() - 1];
            if (ty == 'i') parmcb::set_global_tbb_concurrency((int) n);
            else if (ty == 'u') parmcb::set_global_tbb_concurrency((unsigned) n);
            else if (ty == 'l') parmcb::set_global_tbb_concurrency((long) n);
            else if (ty == 'h') parmcb::set_global_tbb_concurrency((unsigned short) n);
            else if (ty == 'q') parmcb::set_global_tbb_concurrency((unsigned long long) n);
            else parmcb::set_global_tbb_concurrency((std::size_t) n);
            size_t act = tbb::global_control::active_value(tbb::global_control::max_allowed_parallelism);
            emit(J().s("e", "Set").i("n", n).i("active_after", (long) act).str());
        }
    }
    fclose(g_out);
    return 0;
}
