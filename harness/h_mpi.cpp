// Replay harness for C04: the five MPI entry points compiled against the vmpi shim (P rank threads in one
// process) and the vtbb shim, with a per-rank memory layout of the graph chosen through the arena.
//   run = (graph, entry point, P, layout mode, reduce policy)  ->  Call ; Emit* (rank 0) ; Return{ranks:[...]}
#include "arena.hpp"
#include "common.hpp"
#include <set>
#include <parmcb/config.hpp>
#include <parmcb/mpi/parmcb.hpp>
#ifndef VTBB_SHIM
#error "compile against the vtbb shim"
#endif

using namespace vh;

// ---- message-level log (--msg): how the library's message types are described in the vmpi message log ----------------
static bool g_msg = false;
static long g_den = 1;
namespace vmpi {
template<class U> struct describe<parmcb::SpVecGF2<U>> {
    static std::string json(const parmcb::SpVecGF2<U> &v) { std::ostringstream o; o << "["; bool f = true; for (auto it = v.begin(); it != v.end(); ++it) { o << (f ? "" : ",") << (long) *it; f = false; } o << "]"; return o.str(); }
};
template<class G, class WM> struct describe<parmcb::SerializableMinOddCycle<G, WM>> {
    static std::string json(const parmcb::SerializableMinOddCycle<G, WM> &c) {
        std::ostringstream o; o << "{\"ok\":" << (c.exists ? "true" : "false") << ",\"w\":";
        if (!c.exists) o << -1; else { long ri, fr; vh::scaled((double) c.weight, g_den, ri, fr); o << (fr == 0 ? ri : -2); }
        o << ",\"edges\":["; bool f = true; for (auto e : c.edges) { o << (f ? "" : ",") << (e > 1000000 ? -1 : (long) e); f = false; } o << "]}"; return o.str(); }
};
template<class G> struct describe<std::vector<parmcb::SerializableCandidateCycle<G>>> {
    static std::string json(const std::vector<parmcb::SerializableCandidateCycle<G>> &v) {
        std::ostringstream o; o << "["; bool f = true; for (auto &c : v) { o << (f ? "" : ",") << "[" << (long) c.v << "," << (c.e > 1000000 ? -1 : (long) c.e) << "]"; f = false; } o << "]"; return o.str(); }
};
}

template<class Graph> std::size_t probe_node_size() {
    Graph g(2);
    varena::t_nrec = 0; varena::t_recording = true;
    auto e = boost::add_edge(0, 1, g).first;
    varena::t_recording = false;
    char *prop = (char *) e.get_property();
    for (int i = 0; i < varena::t_nrec; i++) {
        char *b = (char *) varena::t_rec_ptr[i];
        if (prop >= b && prop < b + varena::t_rec_size[i]) return varena::t_rec_size[i];
    }
    return 0;
}

template<class Graph> struct MpiRun {
    typedef typename boost::graph_traits<Graph>::edge_descriptor Edge;
    typedef typename boost::property_map<Graph, boost::edge_weight_t>::const_type WMap;
    typedef typename boost::property_traits<WMap>::value_type W;

    struct RankOut { std::vector<std::vector<long>> cycles; double ret = 0; bool layout_ok = true; };

    // perm[i] = arena slot of edge i (a permutation of 0..m-1)
    static bool build_with_layout(const InGraph &in, Built<Graph> &b, int block, const std::vector<std::size_t> &perm, std::size_t node_size) {
        varena::t_node_size = node_size;
        build(in, b,
              [&](size_t i) { varena::t_slot = varena::slot_addr(block, perm[i]); varena::t_armed = true; },
              [&](size_t) { varena::t_armed = false; varena::t_slot = nullptr; });
        // verify: std::set order of all edges == order by slot
        std::set<Edge> all(b.edge_of.begin(), b.edge_of.end());
        std::vector<long> realised; for (auto &e : all) realised.push_back(b.idx(e) - 1);
        std::vector<long> want(perm.size()); for (size_t i = 0; i < perm.size(); i++) want[i] = (long) i;
        std::sort(want.begin(), want.end(), [&](long a, long c) { return perm[(size_t) a] < perm[(size_t) c]; });
        return realised == want;
    }

    static void run(const InGraph &in, const std::string &algo, const char *wt, int P, const std::string &layout, unsigned long seed, int reduce_policy, std::size_t node_size,
                    const std::vector<std::vector<std::size_t>> *explicit_perms = nullptr) {
        size_t m = in.edges.size();
        std::vector<std::vector<std::size_t>> perms((size_t) P, std::vector<std::size_t>(m));
        if (explicit_perms) perms = *explicit_perms;
        else for (int r = 0; r < P; r++) {
            for (size_t i = 0; i < m; i++) perms[(size_t) r][i] = i;
            unsigned long s = seed * 2654435761UL + (layout == "same" ? 0UL : (unsigned long) (r + 1) * 97UL) + 1;
            auto rnd = [&s]() { s ^= s << 13; s ^= s >> 7; s ^= s << 17; return s; };
            if (layout == "reversed_odd") { if (r % 2) std::reverse(perms[(size_t) r].begin(), perms[(size_t) r].end()); }
            else if (layout != "identity") for (size_t i = m; i > 1; i--) std::swap(perms[(size_t) r][i - 1], perms[(size_t) r][rnd() % i]);
        }
        std::vector<RankOut> outs((size_t) P);
        vmpi::World world; world.reduce_policy = reduce_policy; world.seed = seed; world.mlog_enabled = g_msg; g_den = in.den;
        auto errs = vmpi::run(world, P, [&](int r) {
            Built<Graph> b;
            outs[(size_t) r].layout_ok = build_with_layout(in, b, r + 1, perms[(size_t) r], node_size);
            vtbb::ctl().begin_call(); vtbb::ctl().mode = (seed % 3 == 0) ? 0 : 1; vtbb::ctl().seed = seed * 31 + (unsigned long) r;
            const Graph &g = b.g;
            WMap wm = boost::get(boost::edge_weight, g);
            boost::mpi::communicator comm;
            std::list<std::list<Edge>> cycles;
            const bool positional = (seed % 3 == 1);
            std::vector<std::list<Edge>> slots(positional ? m + 8 : 0);
            W ret = W();
            try {
                // every third configuration hands the library an iterator into a pre-sized vector instead of a back_inserter
                if (positional) {
                    auto ps = slots.begin();
                    if (algo == "signed_mpi") ret = parmcb::mcb_sva_signed_mpi(g, wm, ps, comm);
                    else if (algo == "fvs_mpi") ret = parmcb::mcb_sva_fvs_trees_mpi(g, wm, ps, comm);
                    else if (algo == "fvs_tbb_mpi") ret = parmcb::mcb_sva_fvs_trees_tbb_mpi(g, wm, ps, comm);
                    else if (algo == "iso_mpi") ret = parmcb::mcb_sva_iso_trees_mpi(g, wm, ps, comm);
                    else if (algo == "iso_tbb_mpi") ret = parmcb::mcb_sva_iso_trees_tbb_mpi(g, wm, ps, comm);
                    else throw std::runtime_error("unknown algo");
                    for (auto &sl : slots) if (!sl.empty()) cycles.push_back(sl);
                }
                else if (algo == "signed_mpi") ret = parmcb::mcb_sva_signed_mpi(g, wm, std::back_inserter(cycles), comm);
                else if (algo == "fvs_mpi") ret = parmcb::mcb_sva_fvs_trees_mpi(g, wm, std::back_inserter(cycles), comm);
                else if (algo == "fvs_tbb_mpi") ret = parmcb::mcb_sva_fvs_trees_tbb_mpi(g, wm, std::back_inserter(cycles), comm);
                else if (algo == "iso_mpi") ret = parmcb::mcb_sva_iso_trees_mpi(g, wm, std::back_inserter(cycles), comm);
                else if (algo == "iso_tbb_mpi") ret = parmcb::mcb_sva_iso_trees_tbb_mpi(g, wm, std::back_inserter(cycles), comm);
                else throw std::runtime_error("unknown algo");
            } catch (...) {
                for (auto &c : cycles) { std::vector<long> idx; for (auto &e : c) idx.push_back(b.idx(e)); outs[(size_t) r].cycles.push_back(idx); }
                throw;
            }
            for (auto &c : cycles) { std::vector<long> idx; for (auto &e : c) idx.push_back(b.idx(e)); outs[(size_t) r].cycles.push_back(idx); }
            outs[(size_t) r].ret = (double) ret;
        });
        bool layout_ok = true; for (auto &o : outs) layout_ok = layout_ok && o.layout_ok;
        std::ostringstream meta; meta << "{\"P\":" << P << ",\"sink\":\"" << (seed % 3 == 1 ? "positional" : "inserter") << "\",\"layout\":\"" << layout << "\",\"seed\":" << seed << ",\"reduce\":" << reduce_policy << ",\"collectives\":" << world.collectives << "}";
        if (!layout_ok) { emit(J().s("e", "LayoutError").s("algo", algo).i("id", in.id).raw("meta", meta.str()).str()); return; }
        if (g_msg) {
            // message-level trace: Run (graph, forest index, rank 0's output, per-rank termination) ; Coll* (in completion order) ; End
            Built<Graph> hb; build(in, hb);
            parmcb::ForestIndex<Graph> fi(hb.g);
            std::vector<long> rev; for (size_t i = 0; i < m; i++) rev.push_back(hb.idx(fi(i)));
            std::vector<std::string> cyc;
            for (auto &cy : outs[0].cycles) { std::ostringstream o; o << "["; for (size_t q = 0; q < cy.size(); q++) o << (q ? "," : "") << cy[q]; o << "]"; cyc.push_back(o.str()); }
            std::vector<std::string> ranks;
            for (int r = 0; r < P; r++) ranks.push_back(J().i("rank", r).b("returned", errs[(size_t) r].empty()).s("err", errs[(size_t) r]).i("ncyc", (long) outs[(size_t) r].cycles.size()).str());
            long ri, fr; scaled(outs[0].ret, in.den, ri, fr);
            emit(J().s("e", "Run").s("algo", algo).s("variant", algo == "signed_mpi" ? "signed" : "trees").i("id", in.id).i("n", in.n).raw("edges", edges_json(in)).i("den", in.den).i("P", P)
                    .arr("rev", rev).i("N", (long) fi.cycle_space_dimension()).arr("cycles", cyc).arr("ranks", ranks).i("ret", ri).i("frac", fr).raw("meta", meta.str()).str());
            for (auto &c : world.mlog) emit(std::string("{\"e\":\"Coll\",") + c.substr(1));
            emit(J().s("e", "End").i("colls", (long) world.mlog.size()).str());
            return;
        }
        J c; c.s("e", "Call").s("algo", algo).s("wt", wt).i("id", in.id).i("n", in.n).raw("edges", edges_json(in)).i("den", in.den).i("tol", 0).i("P", P).raw("meta", meta.str());
        emit(c.str());
        for (auto &cyc : outs[0].cycles) emit(J().s("e", "Emit").arr("cyc", cyc).str());
        std::vector<std::string> ranks;
        for (int r = 0; r < P; r++) ranks.push_back(J().i("rank", r).b("returned", errs[(size_t) r].empty()).s("err", errs[(size_t) r]).i("ncyc", (long) outs[(size_t) r].cycles.size()).str());
        long ri, fr; scaled(outs[0].ret, in.den, ri, fr);
        emit(J().s("e", "Return").i("ret", ri).i("frac", fr).i("tol", 0).arr("ranks", ranks).str());
    }
};

int main(int argc, char **argv) {
    const char *in = arg_value(argc, argv, "--in", nullptr);
    const char *out = arg_value(argc, argv, "--out", nullptr);
    auto algos = split(arg_value(argc, argv, "--algos", "signed_mpi,fvs_mpi,fvs_tbb_mpi,iso_mpi,iso_tbb_mpi"), ',');
    auto ps = split(arg_value(argc, argv, "--P", "1,2,3"), ',');
    auto layouts = split(arg_value(argc, argv, "--layouts", "identity,random"), ',');
    int nseeds = atoi(arg_value(argc, argv, "--seeds", "2"));
    unsigned long seed0 = (unsigned long) atol(arg_value(argc, argv, "--seed", "1"));
    long start = atol(arg_value(argc, argv, "--start", "0"));
    g_msg = has_flag(argc, argv, "--msg");
    if (!in || !out) return 2;
    g_out = fopen(out, start > 0 ? "a" : "w");
    if (!g_out) return 2;
    install_handlers();
    std::size_t ns = probe_node_size<GraphD>();
    if (ns == 0) { emit(J().s("e", "LayoutError").s("what", "could not determine edge node size").str()); return 5; }
    auto graphs = read_graphs(in);
    for (size_t i = (size_t) start; i < graphs.size(); i++) {
        g_current_item = (long) i; set_crash_context(graphs[i].raw);
        const InGraph &g = graphs[i];
        for (auto &a : algos) for (auto &pz : ps) for (auto &lay : layouts) {
            if (lay == "allpairs" || lay == "allsecond") {
                // every pair of address orders for two ranks (allpairs) / rank 0 fixed, every order on rank 1 (allsecond)
                size_t m = g.edges.size();
                if (atoi(pz.c_str()) != 2 || m > 5 || m < 2) continue;
                std::vector<std::size_t> p0(m), p1(m);
                for (size_t q = 0; q < m; q++) p0[q] = q;
                do {
                    for (size_t q = 0; q < m; q++) p1[q] = q;
                    do {
                        std::vector<std::vector<std::size_t>> pp = {p0, p1};
                        alarm(120);
                        MpiRun<GraphD>::run(g, a, "double", 2, lay, 1, 0, ns, &pp);
                        alarm(0);
                    } while (std::next_permutation(p1.begin(), p1.end()));
                } while (lay == "allpairs" && std::next_permutation(p0.begin(), p0.end()));
                continue;
            }
            int reps = (lay == "identity" || lay == "reversed_odd") ? 1 : nseeds;
            for (int s = 0; s < reps; s++) {
                alarm(120);
                unsigned long seed = seed0 * 1000 + (unsigned long) s * 17 + (unsigned long) g.id * 3;
                MpiRun<GraphD>::run(g, a, "double", atoi(pz.c_str()), lay, seed, (int) (seed % 3), ns);
                alarm(0);
            }
        }
    }
    fclose(g_out);
    return 0;
}
