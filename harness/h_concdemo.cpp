// Recorder for C20, part B: a demo program's own main() (renamed by -Dmain=demo_main, source given by
// -DDEMO_SRC="...") running on the vtbb shim, which records the allowed parallelism seen by every parallel region.
//   h_concdemo --out F -- <demo arguments...>
#include "common.hpp"
#define main demo_main
#include DEMO_SRC
#undef main
#ifndef VTBB_SHIM
#error "compile against the vtbb shim"
#endif
int main(int argc, char **argv) {
    const char *out = vh::arg_value(argc, argv, "--out", nullptr);
    if (!out) return 2;
    int sep = 0; for (int i = 1; i < argc; i++) if (!strcmp(argv[i], "--")) { sep = i; break; }
    if (!sep) return 2;
    vh::g_out = fopen(out, "w");
    vtbb::ctl().log_enabled = true; vtbb::ctl().mode = 0;
    std::vector<char *> av; av.push_back(argv[0]); for (int i = sep + 1; i < argc; i++) av.push_back(argv[i]);
    int rc = demo_main((int) av.size(), av.data());
    std::vector<long> ra(vtbb::ctl().region_active.begin(), vtbb::ctl().region_active.end());
    bool parallel = true; long cores = 0; std::string opts;
    for (int i = sep + 1; i < argc; i++) {
        std::string a = argv[i]; if (i + 1 < argc) opts += a + " ";
        if (a == "--parallel=false") parallel = false;
        if (a == "--cores" && i + 1 < argc) cores = atol(argv[i + 1]);
    }
    vh::emit(vh::J().s("e", "DemoRun").s("prog", DEMO_NAME).s("opts", opts).b("parallel", parallel).i("cores", cores).i("exit", rc).arr("regions", ra).str());
    fclose(vh::g_out);
    return 0;
}
