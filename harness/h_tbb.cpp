// Replay harness for C03: the six TBB entry points compiled against the vtbb shim (shim/vtbb on the include
// path before the system TBB).  For every graph and entry point it
//   1. runs once unsplit and records the regions (kind, size) the call opens,
//   2. runs the degenerate schedule families and `--random R` seeded random schedules (all regions at once),
//   3. for every region (up to --max-regions) whose size has TLC-generated schedules (--sched file), runs the
//      call once per schedule with that region under the schedule and all other regions unsplit.
// Every run is an observable behaviour Call ; Emit* ; Return.  Identical behaviours of one (graph, entry point)
// are logged once; the Stats event gives executions / distinct behaviours / schedule statistics.
#include "common.hpp"
#include <set>
#include <parmcb/config.hpp>
#include <parmcb/parmcb.hpp>
#ifndef VTBB_SHIM
#error "h_tbb.cpp must be compiled against the vtbb shim"
#endif

using namespace vh;

static bool g_footprints = false;
struct Sched { char kind; size_t n; std::vector<vtbb::Node> tree; std::vector<size_t> bounds; std::vector<int> perm; };

static int parse_tree(std::istringstream &is, std::vector<vtbb::Node> &out) {
    std::string tok; is >> tok;
    int id = (int) out.size(); out.push_back(vtbb::Node());
    if (tok == "N") {
        size_t mid; int st, rf; is >> mid >> st >> rf;
        int l = parse_tree(is, out); int r = parse_tree(is, out);
        out[id].leaf = false; out[id].mid = mid; out[id].stolen = st; out[id].right_first = rf; out[id].l = l; out[id].r = r;
    }
    return id;
}
static std::vector<Sched> read_scheds(const char *path) {
    std::vector<Sched> r; if (!path) return r;
    std::ifstream in(path); std::string line;
    while (std::getline(in, line)) {
        std::istringstream is(line); std::string k; is >> k;
        Sched s; s.kind = k.empty() ? '?' : k[0]; is >> s.n;
        if (s.kind == 'R') parse_tree(is, s.tree);
        else if (s.kind == 'F') { size_t nb; is >> nb; for (size_t i = 0; i < nb; i++) { size_t b; is >> b; s.bounds.push_back(b); } for (size_t i = 0; i + 1 < nb; i++) { int p; is >> p; s.perm.push_back(p); } }
        else continue;
        r.push_back(s);
    }
    return r;
}

template<class Graph> struct Run {
    typedef typename boost::graph_traits<Graph>::edge_descriptor Edge;
    typedef typename boost::property_map<Graph, boost::edge_weight_t>::type WMap;
    typedef typename boost::property_traits<WMap>::value_type W;

    // returns the behaviour after Call as lines
    template<class It> static bool invoke(const std::string &algo, const Graph &g, WMap &wm, long k, It o, W &ret) {
        if (algo == "signed_tbb") ret = parmcb::mcb_sva_signed_tbb(g, wm, o);
        else if (algo == "fvs_tbb") ret = parmcb::mcb_sva_fvs_trees_tbb(g, wm, o);
        else if (algo == "iso_tbb") ret = parmcb::mcb_sva_iso_trees_tbb(g, wm, o);
        else if (algo == "approx_signed_tbb") ret = parmcb::approx_mcb_sva_signed_tbb(g, wm, (std::size_t) k, o);
        else if (algo == "approx_fvs_tbb") ret = parmcb::approx_mcb_sva_fvs_trees_tbb(g, wm, (std::size_t) k, o);
        else if (algo == "approx_iso_tbb") ret = parmcb::approx_mcb_sva_iso_trees_tbb(g, wm, (std::size_t) k, o);
        else return false;
        return true;
    }
    // positional: the output iterator points into a pre-sized vector (see h_approx); the caller finds the non-empty slots
    static std::vector<std::string> once(Built<Graph> &b, const InGraph &in, const std::string &algo, long k, bool positional = false) {
        std::vector<std::string> out;
        WMap wm = boost::get(boost::edge_weight, b.g);
        const Graph &g = b.g;
        std::list<std::list<Edge>> cycles;
        vtbb::ctl().begin_call();
        try {
            W ret;
            std::vector<std::list<Edge>> slots(positional ? in.edges.size() + 8 : 0);
            bool known = positional ? invoke(algo, g, wm, k, slots.begin(), ret) : invoke(algo, g, wm, k, std::back_inserter(cycles), ret);
            if (!known) { out.push_back(J().s("e", "Crash").s("what", "unknown algo").str()); return out; }
            if (positional) for (auto &sl : slots) if (!sl.empty()) cycles.push_back(sl);
            for (auto &cyc : cycles) { std::vector<long> idx; for (auto &e : cyc) idx.push_back(b.idx(e)); out.push_back(J().s("e", "Emit").arr("cyc", idx).str()); }
            long ri, fr; scaled((double) ret, in.den, ri, fr);
            out.push_back(J().s("e", "Return").i("ret", ri).i("frac", fr).i("tol", 0).i("ncyc", (long) cycles.size()).str());
        } catch (const std::exception &ex) {
            for (auto &cyc : cycles) { std::vector<long> idx; for (auto &e : cyc) idx.push_back(b.idx(e)); out.push_back(J().s("e", "Emit").arr("cyc", idx).str()); }
            out.push_back(J().s("e", "Threw").s("what", ex.what()).str());
        } catch (...) {
            out.push_back(J().s("e", "Threw").s("what", "non-std exception").str());
        }
        return out;
    }

    static void all(const InGraph &in, const std::string &algo, const char *wt, long k, const std::vector<Sched> &scheds, int nrandom, int max_regions, uint64_t seed) {
        Built<Graph> b; build(in, b);
        std::string extra_meta;      // key=value tokens of the input line are passed through (fam / gid tags of the History stage)
        for (auto &t : in.extra) { auto kv = split(t, '='); if (kv.size() == 2) extra_meta += ",\"" + kv[0] + "\":" + kv[1]; }
        std::set<std::string> seen;
        long execs = 0, distinct = 0, splits = 0, steals = 0, targeted = 0, target_hit = 0;
        std::set<std::string> used_scheds;
        auto record = [&](const std::vector<std::string> &beh, const std::string &sched_desc) {
            execs++;
            splits += vtbb::ctl().splits; steals += vtbb::ctl().steals;
            std::string key; for (auto &l : beh) { key += l; key += '\n'; }
            if (!seen.insert(key).second) return;
            distinct++;
            J c; c.s("e", "Call").s("algo", algo).s("wt", wt).i("id", in.id).i("n", in.n).raw("edges", edges_json(in)).i("den", in.den).i("k", k).i("tol", 0)
                  .raw("meta", "{\"sched\":\"" + sched_desc + "\"" + extra_meta + "}");
            emit(c.str());
            for (auto &l : beh) emit(l);
        };
        vtbb::Controller &c = vtbb::ctl();
        // 1. unsplit, recording the regions
        c.mode = 0; c.record = true;
        auto base = once(b, in, algo, k);
        std::vector<vtbb::RegionInfo> regions = c.regions;
        c.record = false;
        record(base, "unsplit");
        if (k != 0 || algo.find("approx") == std::string::npos) record(once(b, in, algo, k, true), "unsplit-positional-sink");
        // 2. degenerate families and random schedules over all regions
        for (int d = 0; d < 4; d++) {
            c.mode = 3; c.degenerate = d;
            // footprints of every task on the shared concurrent_vectors (data-race clause), all-singleton schedule
            c.footprints = g_footprints && d == 0; c.fp_events.clear();
            record(once(b, in, algo, k), "degenerate" + std::to_string(d));
            if (c.footprints) for (auto &e : c.fp_events) emit("{\"algo\":\"" + algo + "\",\"id\":" + std::to_string(in.id) + "," + e.substr(1));
            c.footprints = false; c.fp_events.clear();
        }
        for (int r = 0; r < nrandom; r++) {
            c.mode = 1; c.seed = seed * 1000003ULL + (uint64_t) r * 7919ULL + (uint64_t) in.id;
            // the first random run is also logged region by region (schedule tree with start / result value of every node)
            c.trace_regions = g_footprints && r == 0; c.region_events.clear();
            record(once(b, in, algo, k, r % 2 == 1), "random" + std::to_string(c.seed) + (r % 2 == 1 ? "-positional-sink" : ""));
            if (c.trace_regions) for (auto &e : c.region_events) emit(e);
            c.trace_regions = false; c.region_events.clear();
        }
        // 3. one region at a time under every TLC-generated schedule of its size
        int done_regions = 0;
        for (size_t j = 0; j < regions.size() && done_regions < max_regions; j++) {
            bool any = false;
            for (size_t si = 0; si < scheds.size(); si++) {
                const Sched &s = scheds[si];
                if (s.kind != regions[j].kind || s.n != regions[j].n) continue;
                any = true;
                c.mode = 2; c.bg = 0; c.target = (long) j; c.target_n = s.n; c.tree = s.tree; c.bounds = s.bounds; c.perm = s.perm;
                auto beh = once(b, in, algo, k);
                targeted++; if (c.target_hit) { target_hit++; used_scheds.insert(std::string(1, s.kind) + std::to_string(si)); }
                record(beh, std::string("region") + std::to_string(j) + (s.kind == 'R' ? "R" : "F") + std::to_string(s.n) + "#" + std::to_string(si));
            }
            if (any) done_regions++;
        }
        c.mode = 0; c.tree.clear(); c.bounds.clear(); c.perm.clear();
        long nr = 0, nf = 0, big = 0; for (auto &r : regions) { if (r.kind == 'R') nr++; else nf++; if (r.n >= 2) big++; }
        emit(J().s("e", "Stats").s("algo", algo).i("id", in.id).i("executions", execs).i("distinct", distinct).i("regions", (long) regions.size())
                 .i("reduce_regions", nr).i("for_regions", nf).i("splittable_regions", big).i("splits", splits).i("steals", steals)
                 .i("targeted", targeted).i("target_hit", target_hit).i("schedules_used", (long) used_scheds.size()).str());
    }
};

int main(int argc, char **argv) {
    const char *in = arg_value(argc, argv, "--in", nullptr);
    const char *out = arg_value(argc, argv, "--out", nullptr);
    auto algos = split(arg_value(argc, argv, "--algos", "signed_tbb,fvs_tbb,iso_tbb"), ',');
    auto types = split(arg_value(argc, argv, "--types", "double"), ',');
    auto ks = split(arg_value(argc, argv, "--ks", "2"), ',');
    int nrandom = atoi(arg_value(argc, argv, "--random", "10"));
    int max_regions = atoi(arg_value(argc, argv, "--max-regions", "6"));
    uint64_t seed = (uint64_t) atol(arg_value(argc, argv, "--seed", "1"));
    long start = atol(arg_value(argc, argv, "--start", "0"));
    g_footprints = has_flag(argc, argv, "--footprints");
    if (!in || !out) return 2;
    g_out = fopen(out, start > 0 ? "a" : "w");
    if (!g_out) return 2;
    install_handlers();
    auto scheds = read_scheds(arg_value(argc, argv, "--sched", nullptr));
    auto graphs = read_graphs(in);
    for (size_t i = (size_t) start; i < graphs.size(); i++) {
        g_current_item = (long) i; set_crash_context(graphs[i].raw);
        const InGraph &g = graphs[i];
        for (auto &a : algos) for (auto &t : types) {
            bool approx = a.compare(0, 6, "approx") == 0;
            for (auto &ksz : (approx ? ks : std::vector<std::string>{"0"})) {
                alarm(300);
                if (t == "double") Run<GraphD>::all(g, a, "double", atol(ksz.c_str()), scheds, nrandom, max_regions, seed);
                else if (g.den == 1) Run<GraphI>::all(g, a, "int", atol(ksz.c_str()), scheds, nrandom, max_regions, seed);
                alarm(0);
            }
        }
    }
    fclose(g_out);
    return 0;
}
