#include "ttbb_core.h"
