// ttbb: a THREADED stand-in for the subset of oneTBB that parmcb uses, for the data-race clause of C03 only.
// Every parallel region really runs its sub-ranges on separate std::threads (up to TTBB_THREADS, default 4) and joins them;
// nothing else synchronises the task bodies, so a ThreadSanitizer build (clang++ -fsanitize=thread) of a recorder compiled
// against this shim reports exactly the conflicting unsynchronised accesses between the tasks of one region.  (The real oneTBB
// library is not instrumented, which makes TSan useless on it; the vtbb shim runs tasks one after the other and cannot see
// races that do not change results.)  Schedules are not controlled here - that is vtbb's job.
#ifndef TTBB_CORE_H
#define TTBB_CORE_H
#include <algorithm>
#include <atomic>
#include <cstdlib>
#include <iterator>
#include <cstddef>
#include <deque>
#include <memory>
#include <mutex>
#include <thread>
#include <utility>
#include <vector>

#ifndef TTBB_THREADS
#define TTBB_THREADS 4
#endif
#define TBB_VERSION_MAJOR 2021
#define TBB_VERSION_MINOR 8
#define TBB_INTERFACE_VERSION 12080

namespace tbb {

class split {};

template<class T> class blocked_range {
public:
    typedef T const_iterator;
    typedef std::size_t size_type;
    blocked_range() : b_(), e_() {}
    blocked_range(T b, T e, size_type g = 1) : b_(b), e_(e), g_(g ? g : 1) {}
    T begin() const { return b_; }
    T end() const { return e_; }
    size_type size() const { return (size_type) (e_ - b_); }
    bool empty() const { return !(b_ < e_); }
    bool is_divisible() const { return size() > g_; }
    size_type grainsize() const { return g_; }
private:
    T b_, e_;
    size_type g_ = 1;
};

namespace ttbb_detail {
inline std::vector<std::size_t> cuts(std::size_t n) {
    std::size_t t = std::min<std::size_t>(n, TTBB_THREADS);
    std::vector<std::size_t> b;
    for (std::size_t i = 0; i <= t; i++) b.push_back(n * i / t);
    return b;
}
inline bool &nested() { static thread_local bool f = false; return f; }
}

template<class Range, class Body> void parallel_for(const Range &range, const Body &body) {
    if (range.empty()) return;
    std::size_t n = range.size();
    if (ttbb_detail::nested() || n < 2) { body(range); return; }      // regions started inside a task run inline
    std::vector<std::size_t> b = ttbb_detail::cuts(n);
    std::vector<std::thread> th;
    for (std::size_t i = 0; i + 1 < b.size(); i++)
        th.emplace_back([&, i]() { ttbb_detail::nested() = true; Range sub(range.begin() + b[i], range.begin() + b[i + 1], range.grainsize()); body(sub); });
    for (auto &t : th) t.join();
}

template<class Range, class Value, class Body, class Join>
Value parallel_reduce(const Range &range, const Value &identity, const Body &body, const Join &join) {
    if (range.empty()) return identity;
    std::size_t n = range.size();
    if (ttbb_detail::nested() || n < 2) return body(range, identity);
    std::vector<std::size_t> b = ttbb_detail::cuts(n);
    std::vector<Value> part(b.size() - 1, identity);
    std::vector<std::thread> th;
    for (std::size_t i = 0; i + 1 < b.size(); i++)
        th.emplace_back([&, i]() { ttbb_detail::nested() = true; Range sub(range.begin() + b[i], range.begin() + b[i + 1], range.grainsize()); part[i] = body(sub, identity); });
    for (auto &t : th) t.join();
    Value r = part[0];
    for (std::size_t i = 1; i < part.size(); i++) r = join(r, part[i]);
    return r;
}

// concurrent_vector without any lock: a pre-sized table of element pointers and an atomic size (growth = fetch_add + a private
// allocation), so that element access introduces NO happens-before edge between tasks - a lock here would order the tasks for
// ThreadSanitizer and hide their races.  Elements never move, as in oneTBB.
template<class T> class concurrent_vector {
    enum { CAP = 1 << 18 };
public:
    typedef std::size_t size_type;
    typedef T value_type;
    template<class V, class Q> class iter {
    public:
        typedef std::random_access_iterator_tag iterator_category;
        typedef Q value_type; typedef std::ptrdiff_t difference_type; typedef Q *pointer; typedef Q &reference;
        iter() : v_(nullptr), i_(0) {}
        iter(V *v, std::size_t i) : v_(v), i_(i) {}
        template<class V2, class Q2> iter(const iter<V2, Q2> &o) : v_(o.v_), i_(o.i_) {}
        reference operator*() const { return *v_->slot(i_); }
        pointer operator->() const { return v_->slot(i_); }
        reference operator[](difference_type k) const { return *v_->slot(i_ + (std::size_t) k); }
        iter &operator++() { ++i_; return *this; } iter operator++(int) { iter t = *this; ++i_; return t; }
        iter &operator--() { --i_; return *this; } iter operator--(int) { iter t = *this; --i_; return t; }
        iter &operator+=(difference_type k) { i_ = (std::size_t) ((difference_type) i_ + k); return *this; }
        iter &operator-=(difference_type k) { i_ = (std::size_t) ((difference_type) i_ - k); return *this; }
        iter operator+(difference_type k) const { iter t = *this; t += k; return t; }
        iter operator-(difference_type k) const { iter t = *this; t -= k; return t; }
        difference_type operator-(const iter &o) const { return (difference_type) i_ - (difference_type) o.i_; }
        bool operator==(const iter &o) const { return i_ == o.i_; } bool operator!=(const iter &o) const { return i_ != o.i_; }
        bool operator<(const iter &o) const { return i_ < o.i_; } bool operator>(const iter &o) const { return i_ > o.i_; }
        bool operator<=(const iter &o) const { return i_ <= o.i_; } bool operator>=(const iter &o) const { return i_ >= o.i_; }
        V *v_; std::size_t i_;
    };
    typedef iter<concurrent_vector, T> iterator;
    typedef iter<const concurrent_vector, const T> const_iterator;
    typedef blocked_range<iterator> range_type;
    typedef blocked_range<const_iterator> const_range_type;
    concurrent_vector() : slots_(new T *[CAP]()), size_(0) {}
    ~concurrent_vector() { clear(); delete[] slots_; }
    iterator push_back(const T &v) { std::size_t i = grow(); slots_[i] = new T(v); return iterator(this, i); }
    iterator push_back(T &&v) { std::size_t i = grow(); slots_[i] = new T(std::move(v)); return iterator(this, i); }
    template<class... A> iterator emplace_back(A&&... a) { std::size_t i = grow(); slots_[i] = new T(std::forward<A>(a)...); return iterator(this, i); }
    T &operator[](size_type i) { return *slots_[i]; }
    const T &operator[](size_type i) const { return *slots_[i]; }
    T &at(size_type i) { return *slots_[i]; }
    const T &at(size_type i) const { return *slots_[i]; }
    iterator begin() { return iterator(this, 0); }
    iterator end() { return iterator(this, size()); }
    const_iterator begin() const { return const_iterator(this, 0); }
    const_iterator end() const { return const_iterator(this, size()); }
    const_iterator cbegin() const { return begin(); }
    const_iterator cend() const { return end(); }
    size_type size() const { return size_.load(std::memory_order_relaxed); }
    bool empty() const { return size() == 0; }
    void clear() { std::size_t n = size(); for (std::size_t i = 0; i < n; i++) { delete slots_[i]; slots_[i] = nullptr; } size_.store(0); }
    void reserve(size_type) {}
    T *slot(std::size_t i) const { return slots_[i]; }
private:
    concurrent_vector(const concurrent_vector &);
    std::size_t grow() { std::size_t i = size_.fetch_add(1, std::memory_order_relaxed); if (i >= CAP) std::abort(); return i; }
    T **slots_;
    std::atomic<std::size_t> size_;
};

class task_group { public: template<class F> void run(const F &f) { f(); } void wait() {} };

class global_control {
public:
    enum parameter { max_allowed_parallelism, thread_stack_size, terminate_on_exception, parameter_max };
    global_control(parameter, std::size_t) {}
    static std::size_t active_value(parameter) { return TTBB_THREADS; }
private:
    global_control(const global_control &);
};

} // namespace tbb
namespace oneapi { namespace tbb = ::tbb; }
#endif
