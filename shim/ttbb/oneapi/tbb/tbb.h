#include "../../tbb/ttbb_core.h"
