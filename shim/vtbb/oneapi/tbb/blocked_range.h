#include "../../tbb/vtbb_core.h"
