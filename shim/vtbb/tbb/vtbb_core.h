// vtbb: a controllable stand-in for the subset of oneTBB that parmcb uses, put on the include path BEFORE the
// system headers so that the unmodified library compiles against it.  A parallel region is executed under an
// explicit *schedule* chosen by the harness (TLC-enumerated or seeded random):
//   parallel_reduce: a binary tree over the index range; an inner node has a split point and a flag `stolen`.
//       Semantics follow oneTBB's start_reduce / lambda_reduce_body: a NON-stolen right child is run by the same
//       body object after the left child, i.e. its initial value is the value accumulated so far; a STOLEN right
//       child gets a split-constructed body (initial value = identity) and the two are combined join(left, right).
//       Stolen siblings may run in either order.
//   parallel_for: any partition of the range into consecutive chunks, executed in any order (each chunk atomically).
//   concurrent_vector::push_back: appends in execution order, so every insertion order is reachable through
//       singleton chunks + permutation.
// This is ParRegion.tla's Eval, transcribed.
#ifndef VTBB_CORE_H
#define VTBB_CORE_H
#include <cstddef>
#include <cstdint>
#include <deque>
#include <functional>
#include <iterator>
#include <string>
#include <utility>
#include <vector>
#include <algorithm>
#include <set>
#include <tuple>

#define TBB_VERSION_MAJOR 2021
#define TBB_VERSION_MINOR 8
#define VTBB_SHIM 1

namespace vtbb {

struct Node {            // schedule tree of a parallel_reduce region
    bool leaf = true;
    std::size_t mid = 0; // absolute split point (lo < mid < hi)
    bool stolen = false;
    bool right_first = false;
    int l = -1, r = -1;
};

struct RegionInfo { char kind; std::size_t n; };

// projection of a partial result of a reduction to [found, weight] for the region traces (ParRegion.tla);
// generic for the library's  std::tuple<std::set<Edge>, Weight, bool>  - other value types are not traced
template<class V> struct Project { static bool get(const V &, bool &, double &) { return false; } };
template<class E, class W> struct Project<std::tuple<std::set<E>, W, bool>> {
    static bool get(const std::tuple<std::set<E>, W, bool> &v, bool &f, double &w) { f = std::get<2>(v); w = (double) std::get<1>(v); return true; }
};
struct RegionNode { std::size_t lo, hi; bool leaf, stolen; int l, r; bool init_f, res_f; double init_w, res_w; };

struct Controller {
    // mode 0: no splitting at all (what a single-threaded run does)
    // mode 1: seeded random schedules for every region
    // mode 2: region number `target` runs under the explicit schedule below, every other region like mode 0/1 (bg)
    // mode 3: degenerate family `degenerate` (0 = all singletons none stolen, 1 = all singletons all stolen,
    //         2 = all stolen right-first / reversed execution, 3 = halves stolen)
    int mode = 0;
    int bg = 0;
    std::uint64_t seed = 1;
    long target = -1;
    std::size_t target_n = 0;             // the explicit schedule is only applied to a region of exactly this size
    int degenerate = 0;
    std::vector<Node> tree;               // explicit reduce schedule, node 0 = root, relative to [0, n)
    std::vector<std::size_t> bounds;      // explicit parallel_for partition: chunk i = [bounds[i], bounds[i+1])
    std::vector<int> perm;                // execution order of the chunks
    bool target_hit = false;
    long counter = 0;                     // regions started in the current call
    bool record = false;
    std::vector<RegionInfo> regions;      // filled when record is set
    long splits = 0, steals = 0, leaves = 0;  // statistics over the current call

    // global_control bookkeeping (C20)
    std::vector<std::pair<int, std::size_t>> controls; // (id, value) of live controls
    int next_control_id = 1;
    std::size_t hardware = 16;
    std::vector<std::string> log;         // control / region events for the demo traces
    bool log_enabled = false;
    std::vector<std::size_t> region_active; // allowed parallelism observed by every region (when log_enabled)
    // footprint recording (data-race clause of C03): which elements of live concurrent_vectors a task touched / changed
    bool trace_regions = false;
    std::vector<std::string> region_events;
    bool footprints = false;
    bool in_task = false;
    std::vector<std::pair<int, std::size_t>> cur_touched;
    struct VecHandle { const void *self; int id; std::function<void()> snap; std::function<void(std::vector<std::pair<int, std::size_t>> &)> diff; };
    std::vector<VecHandle> vectors;
    int next_vec_id = 0;
    std::vector<std::string> fp_events;
    std::string reduce_tasks;
    void fp_begin_region() { if (footprints) for (auto &h : vectors) h.snap(); }
    void fp_begin_task() { if (footprints) { in_task = true; cur_touched.clear(); } }
    // returns JSON of one task's footprint
    std::string fp_end_task(std::size_t lo, std::size_t hi) {
        if (!footprints) return std::string();
        in_task = false;
        std::vector<std::pair<int, std::size_t>> written;
        for (auto &h : vectors) h.diff(written);
        std::sort(cur_touched.begin(), cur_touched.end());
        cur_touched.erase(std::unique(cur_touched.begin(), cur_touched.end()), cur_touched.end());
        std::string j = "{\"lo\":" + std::to_string(lo) + ",\"hi\":" + std::to_string(hi) + ",\"touched\":[";
        for (std::size_t i = 0; i < cur_touched.size(); i++) j += (i ? ",[" : "[") + std::to_string(cur_touched[i].first) + "," + std::to_string(cur_touched[i].second) + "]";
        j += "],\"written\":[";
        for (std::size_t i = 0; i < written.size(); i++) j += (i ? ",[" : "[") + std::to_string(written[i].first) + "," + std::to_string(written[i].second) + "]";
        j += "]}";
        return j;
    }

    void begin_call() { counter = 0; target_hit = false; regions.clear(); splits = steals = leaves = 0; }
    std::uint64_t rnd(std::uint64_t salt) {
        std::uint64_t z = seed + 0x9E3779B97F4A7C15ULL * (salt + 1);
        z = (z ^ (z >> 30)) * 0xBF58476D1CE4E5B9ULL; z = (z ^ (z >> 27)) * 0x94D049BB133111EBULL; return z ^ (z >> 31);
    }
    std::size_t active_parallelism() const {
        std::size_t a = hardware;
        for (auto &c : controls) a = std::min(a, c.second);
        return a;
    }
};

inline Controller &ctl() { static thread_local Controller c; return c; }   // one controller per (rank) thread

// build a random schedule tree over [lo, hi) into `out`; returns node index
inline int random_tree(Controller &c, std::vector<Node> &out, std::size_t lo, std::size_t hi, std::uint64_t &salt, int pct_split) {
    int id = (int) out.size();
    out.push_back(Node());
    if (hi - lo >= 2 && (int) (c.rnd(salt++) % 100) < pct_split) {
        std::size_t mid = lo + 1 + c.rnd(salt++) % (hi - lo - 1);
        bool st = c.rnd(salt++) % 2, rf = c.rnd(salt++) % 2;
        int l = random_tree(c, out, lo, mid, salt, pct_split);
        int r = random_tree(c, out, mid, hi, salt, pct_split);
        out[id].leaf = false; out[id].mid = mid; out[id].stolen = st; out[id].right_first = st && rf; out[id].l = l; out[id].r = r;
    }
    return id;
}
inline int degenerate_tree(std::vector<Node> &out, std::size_t lo, std::size_t hi, int kind) {
    int id = (int) out.size();
    out.push_back(Node());
    if (hi - lo >= 2) {
        std::size_t mid = (kind == 3) ? lo + (hi - lo) / 2 : lo + 1;
        if (kind == 2) mid = hi - 1;
        int l = degenerate_tree(out, lo, mid, kind == 3 ? 0 : kind);
        int r = degenerate_tree(out, mid, hi, kind == 3 ? 0 : kind);
        out[id].leaf = false; out[id].mid = mid; out[id].l = l; out[id].r = r;
        out[id].stolen = (kind == 1 || kind == 2 || kind == 3);
        out[id].right_first = (kind == 2);
    }
    return id;
}

// choose the schedule of the next parallel_reduce region over n items; tree is relative to [0, n)
inline std::vector<Node> next_reduce(std::size_t n) {
    Controller &c = ctl();
    long me = c.counter++;
    if (c.record) c.regions.push_back(RegionInfo{'R', n});
    if (c.log_enabled) c.region_active.push_back(c.active_parallelism());
    std::vector<Node> t;
    int mode = c.mode;
    if (mode == 2) {
        if (me == c.target && !c.tree.empty() && n == c.target_n) { c.target_hit = true; return c.tree; }
        mode = c.bg;
    }
    if (n < 2 || mode == 0) { t.push_back(Node()); return t; }
    if (mode == 1) { std::uint64_t salt = (std::uint64_t) me * 1000003ULL; random_tree(c, t, 0, n, salt, 70); return t; }
    degenerate_tree(t, 0, n, c.degenerate);
    return t;
}

struct ForSchedule { std::vector<std::size_t> bounds; std::vector<int> perm; };
inline ForSchedule next_for(std::size_t n) {
    Controller &c = ctl();
    long me = c.counter++;
    if (c.record) c.regions.push_back(RegionInfo{'F', n});
    if (c.log_enabled) c.region_active.push_back(c.active_parallelism());
    ForSchedule s;
    int mode = c.mode;
    if (mode == 2) {
        if (me == c.target && !c.bounds.empty() && n == c.target_n) { c.target_hit = true; s.bounds = c.bounds; s.perm = c.perm; return s; }
        mode = c.bg;
    }
    if (n == 0) { return s; }
    if (mode == 0) { s.bounds = {0, n}; s.perm = {0}; return s; }
    if (mode == 1) {
        std::uint64_t salt = (std::uint64_t) me * 7919ULL + 17;
        s.bounds.push_back(0);
        for (std::size_t i = 1; i < n; i++) if (c.rnd(salt++) % 100 < 60) s.bounds.push_back(i);
        s.bounds.push_back(n);
        int k = (int) s.bounds.size() - 1;
        for (int i = 0; i < k; i++) s.perm.push_back(i);
        for (int i = k - 1; i > 0; i--) { int j = (int) (c.rnd(salt++) % (std::uint64_t) (i + 1)); std::swap(s.perm[i], s.perm[j]); }
        return s;
    }
    // degenerate: singletons, forward (0,1,3) or reversed (2)
    for (std::size_t i = 0; i <= n; i++) s.bounds.push_back(i);
    for (int i = 0; i < (int) n; i++) s.perm.push_back(c.degenerate == 2 ? (int) n - 1 - i : i);
    return s;
}

// oneTBB never splits a range whose size is <= its grain size: keep only the cut points that a recursive
// splitting of divisible ranges can produce (cut nearest to the middle first), keep the execution order
inline void legalize_rec(const std::vector<std::size_t> &cuts, std::size_t lo, std::size_t hi, std::size_t grain, std::vector<std::size_t> &out) {
    if (hi - lo > grain) {
        std::size_t best = 0; bool have = false;
        for (std::size_t c : cuts) if (c > lo && c < hi) {
            std::size_t d = c > (lo + hi) / 2 ? c - (lo + hi) / 2 : (lo + hi) / 2 - c;
            std::size_t bd = best > (lo + hi) / 2 ? best - (lo + hi) / 2 : (lo + hi) / 2 - best;
            if (!have || d < bd) { best = c; have = true; }
        }
        if (have) { legalize_rec(cuts, lo, best, grain, out); out.push_back(best); legalize_rec(cuts, best, hi, grain, out); }
    }
}
inline void legalize(ForSchedule &s, std::size_t n, std::size_t grain) {
    if (grain <= 1 || s.bounds.size() <= 2) return;
    std::vector<std::size_t> keep; keep.push_back(0);
    legalize_rec(s.bounds, 0, n, grain, keep);
    keep.push_back(n);
    std::sort(keep.begin(), keep.end());
    // order of the new chunks = order in which their first original chunk was scheduled
    std::vector<int> pos(s.bounds.size() - 1);
    for (std::size_t i = 0; i < s.perm.size(); i++) pos[(std::size_t) s.perm[i]] = (int) i;
    std::vector<std::pair<int, int>> key;
    for (std::size_t k = 0; k + 1 < keep.size(); k++) {
        int best = 1 << 30;
        for (std::size_t j = 0; j + 1 < s.bounds.size(); j++) if (s.bounds[j] >= keep[k] && s.bounds[j] < keep[k + 1]) best = std::min(best, pos[j]);
        key.push_back(std::make_pair(best, (int) k));
    }
    std::sort(key.begin(), key.end());
    s.bounds = keep; s.perm.clear();
    for (auto &kv : key) s.perm.push_back(kv.second);
}

} // namespace vtbb

namespace tbb {

class split {};

template<class T> class blocked_range {
public:
    typedef T const_iterator;
    typedef std::size_t size_type;
    blocked_range() : b_(), e_() {}
    blocked_range(T b, T e, size_type g = 1) : b_(b), e_(e), g_(g ? g : 1) {}
    T begin() const { return b_; }
    T end() const { return e_; }
    size_type size() const { return (size_type) (e_ - b_); }
    bool empty() const { return !(b_ < e_); }
    bool is_divisible() const { return size() > g_; }
    size_type grainsize() const { return g_; }
private:
    T b_, e_;
    size_type g_ = 1;
};

template<class Range, class Body> void parallel_for(const Range &range, const Body &body) {
    std::size_t n = range.size();
    if (range.empty()) return;
    vtbb::ForSchedule s = vtbb::next_for(n);
    vtbb::legalize(s, n, range.grainsize());
    vtbb::Controller &c = vtbb::ctl();
    c.fp_begin_region();
    std::string tasks;
    for (int ci : s.perm) {
        c.leaves++;
        Range sub(range.begin() + s.bounds[(std::size_t) ci], range.begin() + s.bounds[(std::size_t) ci + 1], range.grainsize());
        c.fp_begin_task();
        body(sub);
        if (c.footprints) { if (!tasks.empty()) tasks += ","; tasks += c.fp_end_task(s.bounds[(std::size_t) ci], s.bounds[(std::size_t) ci + 1]); }
    }
    if (c.footprints) c.fp_events.push_back("{\"e\":\"ForRegion\",\"kind\":\"for\",\"n\":" + std::to_string(n) + ",\"tasks\":[" + tasks + "]}");
}

namespace vtbb_detail {
template<class Value> void rec_val(const Value &v, bool &f, double &w, bool &ok) { if (!vtbb::Project<Value>::get(v, f, w)) ok = false; if (!f) w = 0; }
template<class Range, class Value, class Body, class Join>
Value eval(const std::vector<vtbb::Node> &t, int id, const Range &range, std::size_t lo, std::size_t hi, const Value &init,
        const Value &identity, const Body &body, const Join &join, std::vector<vtbb::RegionNode> *rec, bool &rec_ok) {
    const vtbb::Node &nd = t[(std::size_t) id];
    std::size_t me = 0;
    if (rec) { me = rec->size(); vtbb::RegionNode rn = {lo, hi, true, false, 0, 0, false, false, 0, 0}; rec_val(init, rn.init_f, rn.init_w, rec_ok); rec->push_back(rn); }
    auto done = [&](const Value &r) { if (rec) rec_val(r, (*rec)[me].res_f, (*rec)[me].res_w, rec_ok); return r; };
    if (nd.leaf || hi - lo <= range.grainsize()) {     // oneTBB never splits a range that is not divisible
        vtbb::Controller &c = vtbb::ctl();
        c.leaves++;
        Range sub(range.begin() + lo, range.begin() + hi, range.grainsize());
        c.fp_begin_task();
        Value r = body(sub, init);
        if (c.footprints) { if (!c.reduce_tasks.empty()) c.reduce_tasks += ","; c.reduce_tasks += c.fp_end_task(lo, hi); }
        return done(r);
    }
    vtbb::ctl().splits++;
    if (rec) { (*rec)[me].leaf = false; (*rec)[me].stolen = nd.stolen; }
    if (!nd.stolen) {                       // same body object continues with the right half
        if (rec) (*rec)[me].l = (int) rec->size() + 1;
        Value left = eval(t, nd.l, range, lo, nd.mid, init, identity, body, join, rec, rec_ok);
        if (rec) (*rec)[me].r = (int) rec->size() + 1;
        return done(eval(t, nd.r, range, nd.mid, hi, left, identity, body, join, rec, rec_ok));
    }
    vtbb::ctl().steals++;
    if (nd.right_first) {
        if (rec) (*rec)[me].r = (int) rec->size() + 1;
        Value right = eval(t, nd.r, range, nd.mid, hi, identity, identity, body, join, rec, rec_ok);
        if (rec) (*rec)[me].l = (int) rec->size() + 1;
        Value left = eval(t, nd.l, range, lo, nd.mid, init, identity, body, join, rec, rec_ok);
        return done(join(left, right));
    }
    if (rec) (*rec)[me].l = (int) rec->size() + 1;
    Value left = eval(t, nd.l, range, lo, nd.mid, init, identity, body, join, rec, rec_ok);
    if (rec) (*rec)[me].r = (int) rec->size() + 1;
    Value right = eval(t, nd.r, range, nd.mid, hi, identity, identity, body, join, rec, rec_ok);
    return done(join(left, right));
}
}

template<class Range, class Value, class Body, class Join>
Value parallel_reduce(const Range &range, const Value &identity, const Body &body, const Join &join) {
    if (range.empty()) return identity;
    std::size_t n = range.size();
    std::vector<vtbb::Node> t = vtbb::next_reduce(n);
    vtbb::Controller &c = vtbb::ctl();
    c.fp_begin_region(); c.reduce_tasks.clear();
    std::vector<vtbb::RegionNode> rec; bool rec_ok = true;
    Value r = vtbb_detail::eval(t, 0, range, 0, n, identity, identity, body, join, c.trace_regions ? &rec : nullptr, rec_ok);
    if (c.trace_regions && rec_ok) {
        std::string j = "{\"e\":\"Region\",\"n\":" + std::to_string(n) + ",\"nodes\":[";
        for (std::size_t i = 0; i < rec.size(); i++) {
            const vtbb::RegionNode &x = rec[i];
            bool integral = (double) (long long) x.init_w == x.init_w && (double) (long long) x.res_w == x.res_w && x.init_w < 2e9 && x.res_w < 2e9;
            if (!integral) { rec_ok = false; break; }
            j += std::string(i ? "," : "") + "{\"lo\":" + std::to_string(x.lo) + ",\"hi\":" + std::to_string(x.hi) + ",\"leaf\":" + (x.leaf ? "true" : "false") + ",\"stolen\":" + (x.stolen ? "true" : "false") +
                 ",\"l\":" + std::to_string(x.l) + ",\"r\":" + std::to_string(x.r) + ",\"init\":{\"found\":" + (x.init_f ? "true" : "false") + ",\"w\":" + std::to_string((long long) x.init_w) +
                 "},\"res\":{\"found\":" + (x.res_f ? "true" : "false") + ",\"w\":" + std::to_string((long long) x.res_w) + "}}";
        }
        if (rec_ok) c.region_events.push_back(j + "]}");
    }
    if (c.footprints) c.fp_events.push_back("{\"e\":\"ForRegion\",\"kind\":\"reduce\",\"n\":" + std::to_string(n) + ",\"tasks\":[" + c.reduce_tasks + "]}");
    return r;
}

template<class T> class concurrent_vector {
public:
    typedef typename std::deque<T>::iterator iterator;
    typedef typename std::deque<T>::const_iterator const_iterator;
    typedef std::size_t size_type;
    typedef T value_type;
    typedef blocked_range<iterator> range_type;
    typedef blocked_range<const_iterator> const_range_type;
    concurrent_vector() { reg(); }
    ~concurrent_vector() { vtbb::Controller &c = vtbb::ctl(); for (std::size_t i = 0; i < c.vectors.size(); i++) if (c.vectors[i].self == this) { c.vectors.erase(c.vectors.begin() + (long) i); break; } }
    iterator push_back(const T &v) { d_.push_back(v); return d_.end() - 1; }
    iterator push_back(T &&v) { d_.push_back(std::move(v)); return d_.end() - 1; }
    template<class... A> iterator emplace_back(A&&... a) { d_.emplace_back(std::forward<A>(a)...); return d_.end() - 1; }
    T &operator[](size_type i) { touch(i); return d_[i]; }
    const T &operator[](size_type i) const { touch(i); return d_[i]; }
    T &at(size_type i) { touch(i); return d_.at(i); }
    const T &at(size_type i) const { touch(i); return d_.at(i); }
    iterator begin() { return d_.begin(); }
    iterator end() { return d_.end(); }
    const_iterator begin() const { return d_.begin(); }
    const_iterator end() const { return d_.end(); }
    const_iterator cbegin() const { return d_.cbegin(); }
    const_iterator cend() const { return d_.cend(); }
    size_type size() const { return d_.size(); }
    bool empty() const { return d_.empty(); }
    void clear() { d_.clear(); }
    void reserve(size_type) {}
    range_type range(size_type = 1) { return range_type(begin(), end()); }
private:
    concurrent_vector(const concurrent_vector &);
    void touch(size_type i) const { vtbb::Controller &c = vtbb::ctl(); if (c.in_task) c.cur_touched.push_back(std::make_pair(id_, (std::size_t) i)); }
    template<class U> static auto same(const U &a, const U &b, int) -> decltype(a.begin(), bool()) { return a.size() == b.size() && std::equal(a.begin(), a.end(), b.begin()); }
    template<class U> static bool same(const U &a, const U &b, long) { return a == b; }
    void reg() {
        vtbb::Controller &c = vtbb::ctl();
        id_ = c.next_vec_id++;
        vtbb::Controller::VecHandle h; h.self = this; h.id = id_;
        h.snap = [this]() { snap_ = d_; };
        h.diff = [this](std::vector<std::pair<int, std::size_t>> &out) {
            for (std::size_t i = 0; i < d_.size(); i++) if (i >= snap_.size() || !same(d_[i], snap_[i], 0)) out.push_back(std::make_pair(id_, i));
            snap_ = d_;
        };
        c.vectors.push_back(h);
    }
    int id_ = 0;
    std::deque<T> d_;
    std::deque<T> snap_;
};

class task_group {
public:
    template<class F> void run(const F &f) { f(); }
    void wait() {}
};

class global_control {
public:
    enum parameter { max_allowed_parallelism, thread_stack_size, terminate_on_exception, parameter_max };
    global_control(parameter p, std::size_t value) : p_(p), id_(0) {
        if (p == max_allowed_parallelism) {
            vtbb::Controller &c = vtbb::ctl();
            id_ = c.next_control_id++;
            c.controls.push_back(std::make_pair(id_, value));
            if (c.log_enabled) c.log.push_back("{\"e\":\"ControlCreate\",\"id\":" + std::to_string(id_) + ",\"value\":" + std::to_string(value) + "}");
        }
    }
    ~global_control() {
        if (p_ == max_allowed_parallelism) {
            vtbb::Controller &c = vtbb::ctl();
            for (std::size_t i = 0; i < c.controls.size(); i++) if (c.controls[i].first == id_) { c.controls.erase(c.controls.begin() + (long) i); break; }
            if (c.log_enabled) c.log.push_back("{\"e\":\"ControlDestroy\",\"id\":" + std::to_string(id_) + "}");
        }
    }
    static std::size_t active_value(parameter p) { return p == max_allowed_parallelism ? vtbb::ctl().active_parallelism() : 0; }
private:
    global_control(const global_control &);
    parameter p_;
    int id_;
};

} // namespace tbb

namespace oneapi { namespace tbb = ::tbb; }
#endif
