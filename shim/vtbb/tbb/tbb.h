#include "vtbb_core.h"
