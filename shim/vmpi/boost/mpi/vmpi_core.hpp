// vmpi: a stand-in for the subset of Boost.MPI that parmcb uses (communicator rank/size, environment,
// broadcast, scatter, reduce, timer, the traits is_commutative / is_mpi_datatype).  P ranks are P threads of
// one process that meet in a rendezvous object: a collective completes when all P ranks have entered the SAME
// collective with the same root; the last rank to arrive computes every rank's result.  Differences from a
// real MPI that matter for verification:
//   * a rank that enters a different collective than the others  -> vmpi::error("Mismatch") in all ranks
//   * a rank that leaves (returns) while others wait              -> vmpi::error("Deadlock") in the waiters
//     (instead of hanging until a watchdog fires)
//   * reduce combines the contributions in a bracketing/order chosen by the harness (the operation is declared
//     commutative by the library, so Boost.MPI may use any)
//   * every payload is passed through Boost.Serialization (binary archive), as Boost.MPI does for non-MPI types.
#ifndef VMPI_CORE_HPP
#define VMPI_CORE_HPP
#include <condition_variable>
#include <deque>
#include <map>
#include <tuple>
#include <chrono>
#include <functional>
#include <mutex>
#include <sstream>
#include <stdexcept>
#include <string>
#include <thread>
#include <vector>
#include <boost/mpl/bool.hpp>
#include <boost/archive/binary_oarchive.hpp>
#include <boost/archive/binary_iarchive.hpp>
#include <boost/serialization/vector.hpp>

namespace vmpi {

struct error : std::runtime_error { explicit error(const std::string &s) : std::runtime_error(s) {} };

struct World {
    int P = 1;
    std::mutex mu;
    std::condition_variable cv;
    long generation = 0;
    int arrived = 0;
    int finished = 0;
    std::string kind; int root = 0;
    bool failed = false; std::string failure;
    std::vector<std::string> in;        // per rank serialized contribution
    std::vector<std::string> outb[2];   // per rank serialized result, double-buffered by generation parity: a slow rank may still
                                        // read the result of collective g while a fast rank already opens collective g+1
    std::vector<std::string> &outv_ref() { return outb[generation % 2]; }
    std::function<void(World &)> compute; // set by first arriver, run by last
    // reduce policy: 0 = left fold in rank order, 1 = right fold, 2 = seeded random bracketing with operand swaps
    int reduce_policy = 0; unsigned long seed = 1;
    long collectives = 0; std::vector<std::string> log; bool log_enabled = false;
    // message log (one JSON object per completed collective: kind, root, per-rank description of the contribution, description
    // of the result) for the message-level trace specification; payloads are described by vmpi::describe<T>, which the harness
    // specialises for the library's message types
    // point-to-point mailboxes: (source, dest, tag) -> queue of serialized messages
    std::map<std::tuple<int, int, int>, std::deque<std::string>> mail;
    bool mlog_enabled = false; std::vector<std::string> mlog; std::vector<std::string> in_desc; std::string out_desc;
};

template<class T, class Enable = void> struct describe { static std::string json(const T &) { return "null"; } };

inline World *&current_world() { static World *w = nullptr; return w; }
inline int &my_rank() { static thread_local int r = 0; return r; }

template<class T> std::string pack(const T &v) { std::ostringstream os; { boost::archive::binary_oarchive oa(os, boost::archive::no_header); oa << v; } return os.str(); }
template<class T> void unpack(const std::string &s, T &v) { std::istringstream is(s); boost::archive::binary_iarchive ia(is, boost::archive::no_header); ia >> v; }

// enter a collective; returns this rank's serialized result
inline std::string rendezvous(World &w, int rank, const std::string &kind, int root, const std::string &payload,
        const std::function<void(World &)> &compute, const std::string &in_desc = "null") {
    std::unique_lock<std::mutex> lk(w.mu);
    if (w.failed) throw error(w.failure);
    if (w.arrived == 0) { w.kind = kind; w.root = root; w.in.assign((size_t) w.P, std::string()); w.outb[w.generation % 2].assign((size_t) w.P, std::string()); w.compute = compute;
                          w.in_desc.assign((size_t) w.P, "null"); w.out_desc = "null"; }
    else if (w.kind != kind || w.root != root) {
        w.failed = true; w.failure = "Mismatch: rank " + std::to_string(rank) + " entered " + kind + " while others are in " + w.kind;
        w.cv.notify_all(); throw error(w.failure);
    }
    w.in[(size_t) rank] = payload;
    if (w.mlog_enabled) w.in_desc[(size_t) rank] = in_desc;
    w.arrived++;
    long gen = w.generation;
    if (w.arrived == w.P) {
        w.compute(w);
        w.collectives++;
        if (w.log_enabled) w.log.push_back(kind);
        if (w.mlog_enabled) {
            // broadcast: the root's value; scatter: the root's list of chunks; reduce: every rank's contribution and the result
            std::string e = "{\"kind\":\"" + kind + "\",\"root\":" + std::to_string(root);
            if (kind == "reduce") {
                e += ",\"ins\":[";
                for (int i = 0; i < w.P; i++) e += (i ? "," : "") + w.in_desc[(size_t) i];
                e += "],\"out\":" + w.out_desc;
            } else if (kind != "barrier") e += ",\"val\":" + w.in_desc[(size_t) root];
            w.mlog.push_back(e + "}");
        }
        w.arrived = 0; w.generation++;
        w.cv.notify_all();
    } else {
        while (w.generation == gen && !w.failed) {
            if (w.arrived + w.finished >= w.P && w.finished > 0) {
                w.failed = true; w.failure = "Deadlock: " + std::to_string(w.arrived) + " rank(s) wait in " + w.kind + " but " + std::to_string(w.finished) + " rank(s) already returned";
                w.cv.notify_all(); break;
            }
            w.cv.wait_for(lk, std::chrono::milliseconds(50));
        }
        if (w.failed) throw error(w.failure);
    }
    return w.outb[gen % 2][(size_t) rank];
}

// run f(rank) on P rank threads; returns per-rank error strings ("" = returned normally)
inline std::vector<std::string> run(World &w, int P, const std::function<void(int)> &f) {
    w.P = P; w.arrived = 0; w.finished = 0; w.generation = 0; w.failed = false; w.failure.clear(); w.collectives = 0; w.log.clear(); w.mlog.clear(); w.mail.clear();
    current_world() = &w;
    std::vector<std::string> errs((size_t) P);
    std::vector<std::thread> th;
    for (int r = 0; r < P; r++) th.emplace_back([&, r]() {
        my_rank() = r;
        try { f(r); } catch (const std::exception &e) { errs[(size_t) r] = e.what()[0] ? e.what() : "exception"; } catch (...) { errs[(size_t) r] = "unknown exception"; }
        std::unique_lock<std::mutex> lk(w.mu); w.finished++; w.cv.notify_all();
    });
    for (auto &t : th) t.join();
    current_world() = nullptr;
    return errs;
}

} // namespace vmpi

namespace boost { namespace mpi {

namespace threading { enum level { single = 0, funneled = 1, serialized = 2, multiple = 3 }; }

class environment {
public:
    environment() {} environment(int &, char **&, bool = true) {}
    environment(int &, char **&, threading::level, bool = true) {}
    environment(threading::level, bool = true) {}
    static threading::level thread_level() { return threading::multiple; }
    static std::string processor_name() { return "vmpi"; }
    static bool initialized() { return true; }
};

class communicator {
public:
    communicator() : w_(vmpi::current_world()), rank_(vmpi::my_rank()) {}
    int rank() const { return rank_; }
    int size() const { return w_ ? w_->P : 1; }
    vmpi::World &world() const { if (!w_) throw vmpi::error("no vmpi world"); return *w_; }
    void barrier() const { vmpi::rendezvous(world(), rank_, "barrier", 0, "", [](vmpi::World &) {}); }
    // blocking point-to-point (buffered send; recv fails with "Deadlock" when every other rank has returned and nothing is queued)
    template<class T> void send(int dest, int tag, const T &value) const {
        vmpi::World &w = world(); std::unique_lock<std::mutex> lk(w.mu);
        if (w.failed) throw vmpi::error(w.failure);
        w.mail[std::make_tuple(rank_, dest, tag)].push_back(vmpi::pack(value)); w.cv.notify_all();
    }
    template<class T> void recv(int source, int tag, T &value) const {
        vmpi::World &w = world(); std::unique_lock<std::mutex> lk(w.mu);
        auto key = std::make_tuple(source, rank_, tag);
        while (w.mail[key].empty()) {
            if (w.failed) throw vmpi::error(w.failure);
            if (w.finished >= w.P - 1) { w.failed = true; w.failure = "Deadlock: rank " + std::to_string(rank_) + " waits in recv but every other rank already returned"; w.cv.notify_all(); throw vmpi::error(w.failure); }
            w.cv.wait_for(lk, std::chrono::milliseconds(50));
        }
        std::string m = w.mail[key].front(); w.mail[key].pop_front(); lk.unlock();
        vmpi::unpack(m, value);
    }
private:
    vmpi::World *w_; int rank_;
};

class timer { public: timer() : t0(std::chrono::steady_clock::now()) {} double elapsed() const { return std::chrono::duration<double>(std::chrono::steady_clock::now() - t0).count(); } void restart() { t0 = std::chrono::steady_clock::now(); } private: std::chrono::steady_clock::time_point t0; };

template<class Op, class T> struct is_commutative : mpl::false_ {};
template<class T> struct is_mpi_datatype : mpl::false_ {};

template<class T> void broadcast(const communicator &comm, T &value, int root) {
    std::string mine = comm.rank() == root ? vmpi::pack(value) : std::string();
    std::string r = vmpi::rendezvous(comm.world(), comm.rank(), "broadcast", root, mine, [root](vmpi::World &w) {
        for (int i = 0; i < w.P; i++) w.outb[w.generation % 2][(size_t) i] = w.in[(size_t) root];
    }, (comm.rank() == root && comm.world().mlog_enabled) ? vmpi::describe<T>::json(value) : std::string("null"));
    if (comm.rank() != root) vmpi::unpack(r, value);
}

template<class T> void scatter(const communicator &comm, const std::vector<T> &in_values, T &out_value, int root) {
    std::string mine, desc = "null";
    if (comm.rank() == root) {
        if ((int) in_values.size() != comm.size()) throw vmpi::error("scatter: root supplies " + std::to_string(in_values.size()) + " values for " + std::to_string(comm.size()) + " ranks");
        std::vector<std::string> parts; for (auto &v : in_values) parts.push_back(vmpi::pack(v));
        mine = vmpi::pack(parts);
        if (comm.world().mlog_enabled) { desc = "["; for (size_t i = 0; i < in_values.size(); i++) desc += (i ? "," : "") + vmpi::describe<T>::json(in_values[i]); desc += "]"; }
    }
    std::string r = vmpi::rendezvous(comm.world(), comm.rank(), "scatter", root, mine, [root](vmpi::World &w) {
        std::vector<std::string> parts; vmpi::unpack(w.in[(size_t) root], parts);
        for (int i = 0; i < w.P; i++) w.outb[w.generation % 2][(size_t) i] = parts[(size_t) i];
    }, desc);
    vmpi::unpack(r, out_value);
}
template<class T> void scatter(const communicator &comm, T &out_value, int root) { scatter(comm, std::vector<T>(), out_value, root); }

template<class T, class Op> void reduce(const communicator &comm, const T &in_value, T &out_value, Op op, int root) {
    std::string r = vmpi::rendezvous(comm.world(), comm.rank(), "reduce", root, vmpi::pack(in_value), [root, op](vmpi::World &w) {
        std::vector<T> vals((size_t) w.P);
        for (int i = 0; i < w.P; i++) { T tmp; vmpi::unpack(w.in[(size_t) i], tmp); vals[(size_t) i] = tmp; }
        Op o = op;
        if (w.reduce_policy == 0) { T acc = vals[0]; for (int i = 1; i < w.P; i++) acc = o(acc, vals[(size_t) i]); w.outb[w.generation % 2][(size_t) root] = vmpi::pack(acc); }
        else if (w.reduce_policy == 1) { T acc = vals[(size_t) w.P - 1]; for (int i = w.P - 2; i >= 0; i--) acc = o(vals[(size_t) i], acc); w.outb[w.generation % 2][(size_t) root] = vmpi::pack(acc); }
        else {
            // random bracketing; operand swaps only if the library declared the operation commutative
            unsigned long s = w.seed * 6364136223846793005UL + (unsigned long) w.collectives * 1442695040888963407UL + 12345;
            auto rnd = [&s]() { s ^= s << 13; s ^= s >> 7; s ^= s << 17; return s; };
            std::vector<T> cur = vals;
            while (cur.size() > 1) {
                size_t i = rnd() % (cur.size() - 1);
                bool sw = is_commutative<Op, T>::value && (rnd() % 2);
                T c = sw ? o(cur[i + 1], cur[i]) : o(cur[i], cur[i + 1]);
                cur[i] = c; cur.erase(cur.begin() + (long) i + 1);
            }
            w.outb[w.generation % 2][(size_t) root] = vmpi::pack(cur[0]);
        }
        if (w.mlog_enabled) { T res; vmpi::unpack(w.outb[w.generation % 2][(size_t) root], res); w.out_desc = vmpi::describe<T>::json(res); }
    }, comm.world().mlog_enabled ? vmpi::describe<T>::json(in_value) : std::string("null"));
    if (comm.rank() == root) vmpi::unpack(r, out_value);
}
template<class T, class Op> void reduce(const communicator &comm, const T &in_value, Op op, int root) { T dummy; reduce(comm, in_value, dummy, op, root); }

// the remaining value collectives of Boost.MPI (a changed program may use any of them): all_reduce, gather, all_gather
template<class T, class Op> void all_reduce(const communicator &comm, const T &in_value, T &out_value, Op op) {
    std::string r = vmpi::rendezvous(comm.world(), comm.rank(), "all_reduce", 0, vmpi::pack(in_value), [op](vmpi::World &w) {
        std::vector<T> vals((size_t) w.P);
        for (int i = 0; i < w.P; i++) { T tmp; vmpi::unpack(w.in[(size_t) i], tmp); vals[(size_t) i] = tmp; }
        Op o = op; T acc = vals[0]; for (int i = 1; i < w.P; i++) acc = o(acc, vals[(size_t) i]);
        for (int i = 0; i < w.P; i++) w.outb[w.generation % 2][(size_t) i] = vmpi::pack(acc);
    });
    vmpi::unpack(r, out_value);
}
template<class T, class Op> T all_reduce(const communicator &comm, const T &in_value, Op op) { T out; all_reduce(comm, in_value, out, op); return out; }
template<class T> void all_gather(const communicator &comm, const T &in_value, std::vector<T> &out_values) {
    std::string r = vmpi::rendezvous(comm.world(), comm.rank(), "all_gather", 0, vmpi::pack(in_value), [](vmpi::World &w) {
        std::vector<T> vals((size_t) w.P);
        for (int i = 0; i < w.P; i++) { T tmp; vmpi::unpack(w.in[(size_t) i], tmp); vals[(size_t) i] = tmp; }
        for (int i = 0; i < w.P; i++) w.outb[w.generation % 2][(size_t) i] = vmpi::pack(vals);
    });
    vmpi::unpack(r, out_values);
}
template<class T> void gather(const communicator &comm, const T &in_value, std::vector<T> &out_values, int root) {
    std::string r = vmpi::rendezvous(comm.world(), comm.rank(), "gather", root, vmpi::pack(in_value), [root](vmpi::World &w) {
        std::vector<T> vals((size_t) w.P);
        for (int i = 0; i < w.P; i++) { T tmp; vmpi::unpack(w.in[(size_t) i], tmp); vals[(size_t) i] = tmp; }
        w.outb[w.generation % 2][(size_t) root] = vmpi::pack(vals);
    });
    if (comm.rank() == root) vmpi::unpack(r, out_values);
}
template<class T> void gather(const communicator &comm, const T &in_value, int root) { std::vector<T> dummy; gather(comm, in_value, dummy, root); }

}} // namespace boost::mpi
#endif
