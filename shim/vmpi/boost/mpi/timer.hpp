#include "vmpi_core.hpp"
