#include "mpi/vmpi_core.hpp"
