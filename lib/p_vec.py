"""C17 (SpVecGF2) and C18 (fp, primes, SpVecFP): TLC-generated transitions replayed on the real classes,
seeded random histories recorded, every event validated by TLC against SpVecGF2.tla / FpArith.tla."""
import json, os, random, shutil
import vlib


def harness():
    return vlib.build('h_vec', [os.path.join(vlib.HARNESS, 'h_vec.cpp')], libs=())


def mc(res, module, cfg, what, timeout=3000, expect_violation=False):
    r = vlib.tlc_ok(module, cfg, extra=['-coverage', '1'], timeout=timeout)
    if r['violated'] != expect_violation:
        raise vlib.HarnessError('%s/%s: unexpected model-checking outcome (violated=%s)\n%s' % (module, cfg, r['violated'], r['out'][-3000:]))
    res.add_mc(what, r)
    return r


def gf2_line(o):
    return 'GF2 %s %d %d %d %d %s' % (o['op'], o['d'], o['a'], o['b'], len(o['set']), ' '.join(map(str, o['set'])))


def gf2_reset_line(regs):
    return 'GF2RESET %d %s' % (len(regs), ' '.join('%d %s' % (len(r), ' '.join(map(str, r))) for r in regs))


def tlc_gf2_transitions(wd, R, D):
    out = os.path.join(wd, 'gf2_trans_%d_%d.ndjson' % (R, D))
    cfg = os.path.join(wd, 'Gen_GF2_%d_%d.cfg' % (R, D))
    with open(cfg, 'w') as f:
        f.write('CONSTANTS R = %d D = %d\nINIT GInit\nNEXT GNext\nCHECK_DEADLOCK FALSE\n' % (R, D))
    vlib.tlc_ok('Gen_GF2', cfg, workers=1, env={'GEN_OUT': out}, tag='gen', xmx='8g')
    lines = []
    n = 0
    with open(out) as f:
        for ln in f:
            ln = ln.strip()
            if not ln:
                continue
            t = json.loads(ln)
            lines.append(gf2_reset_line(t['regs']))
            lines.append(gf2_line(t['o']))
            n += 1
    return lines, n


def random_gf2_history(rng, R, D, length, skewed=False, pool=None):
    """skewed: operands of very different lengths (a few coordinates against most of the dimension) - the regime in which an
    implementation may switch to another algorithm (binary search of the short operand in the long one, galloping, ...)"""
    def sz():
        if not skewed:
            return rng.randint(0, min(D, 6))
        return rng.choice([0, 1, 2, 2, 3, 4, D // 3, D // 2, D - D // 8, D - 1, D])
    # pool: the coordinates are drawn from this list instead of 0..D-1 (coordinates around 2^8, 2^16 and just below 2^31)
    dom = pool if pool is not None else range(D)
    if pool is not None:
        D = len(pool)
    lines = [gf2_reset_line([sorted(rng.sample(dom, sz())) for _ in range(R)])]
    ops = ['Unit', 'FromSet', 'Default', 'Copy', 'Move', 'Assign', 'MoveAssign', 'Plus', 'Plus', 'PlusAssign', 'PlusAssign', 'Dot', 'Dot', 'DotSet', 'Clear', 'Swap']
    if skewed:
        ops = ops + ['Dot'] * 8 + ['DotSet'] * 6 + ['FromSet'] * 3
    for _ in range(length):
        op = rng.choice(ops)
        d, a, b = rng.randrange(R), rng.randrange(R), rng.randrange(R)
        if op == 'Move' and a == d:            # (self move ASSIGNMENT and swap(a, a) are legal histories and keep the value)
            a = (d + 1) % R
        if op in ('MoveAssign', 'Swap', 'Assign', 'PlusAssign') and rng.random() < 0.15:
            a = d
        if op == 'Unit':
            a = dom[rng.randrange(D)]
        s = sorted(rng.sample(dom, sz() if skewed else rng.randint(0, min(D, 7)))) if op in ('FromSet', 'DotSet') else []
        lines.append(gf2_line({'op': op, 'd': d, 'a': a, 'b': b, 'set': s}))
    return lines


def run_script(res, exe, wd, name, lines, module, cfg, start_pat, nproc=vlib.NCPU, by_history=True):
    # distribute whole histories (Reset .. next Reset) over recorder processes
    groups = []
    for ln in lines:
        if ln.startswith('GF2RESET') or ln.startswith('FPRESET') or not by_history or not groups:
            groups.append([ln])
        else:
            groups[-1].append(ln)
    nproc = max(1, min(nproc, len(groups)))
    parts = []
    for i in range(nproc):
        fin = os.path.join(wd, '%s.in%d' % (name, i))
        with open(fin, 'w') as f:
            for g in groups[i::nproc]:
                f.write('\n'.join(g) + '\n')
        parts.append((fin, os.path.join(wd, '%s.tr%d' % (name, i))))
    import concurrent.futures as cf
    with cf.ThreadPoolExecutor(max_workers=nproc) as ex:
        list(ex.map(lambda p: vlib.run_recorder(exe, p[0], p[1]), parts))
    trace = os.path.join(wd, name + '.ndjson')
    with open(trace, 'w') as o:
        for _, tr in parts:
            with open(tr) as f:
                shutil.copyfileobj(f, o)
    ev = vlib.count_events(trace)
    v = vlib.validate_trace(module, cfg, trace, start_event=start_pat)
    return trace, ev, v


def judge(res, v, spec):
    for rj in v['rejects']:
        call = rj['call']
        seg = rj['segment']
        facts = {'event': call.get('e'), 'op': call.get('op'), 'T': call.get('T') or ('cpp_int' if str(call.get('e', '')).endswith('Big') else None), 'clauses': rj['clauses']}
        for k in ('a', 'b', 'p', 'd', 'k', 'set'):
            if k in call:
                facts[k] = call[k]
        res.violation(facts, {'trace_segment': seg[:3], 'spec': spec, 'line': rj['line']})


def check_C17(res, tier, seed, replay):
    rng = random.Random(seed)
    res.assumptions += ['moved-from registers are cleared by the harness before reuse (their content is unspecified by the property)',
                        'add() is outside the operation list of the property and is not exercised']
    wd = vlib.scratch('C17')
    try:
        exe = harness()
        if replay:
            obj = json.load(open(replay))
            raise vlib.HarnessError('replay of a single GF2 event: re-run the check; the failing event is in %s' % replay)
        mc(res, 'SpVecGF2', 'MC_SpVecGF2_q.cfg', 'SpVecGF2 register machine, all histories over R=3, D=3 (512 states, every (state,op) transition)')
        mc(res, 'SpVecGF2Merge', 'MC_SpVecGF2_merge.cfg' if tier == 'quick' else 'MC_SpVecGF2_merge_t.cfg',
           'two-pointer merge loops of operator+ / operator* = symmetric difference / parity, all pairs of vectors')
        # GEN -> replay: one implementation test per transition of the specification
        R, D = (3, 3)
        lines, ntrans = tlc_gf2_transitions(wd, R, D)
        if tier != 'quick':
            l2, n2 = tlc_gf2_transitions(wd, 2, 5)
            lines += l2
            ntrans += n2
        res.cov['exhaustive_space'] = 'every (state, operation) transition of the register machine for R=3,D=3%s: %d transitions' % (', and R=2,D=5' if tier != 'quick' else '', ntrans)
        trace, ev, v = run_script(res, exe, wd, 'gf2t', lines, 'Trace_GF2', 'Trace_GF2.cfg', '"op":"Reset"')
        res.add_validation(v, ntrans)
        judge(res, v, 'Trace_GF2')
        # REC -> TLC: seeded random histories over larger dimensions
        nh = 300 if tier == 'quick' else 6000
        hl = []
        for k in range(nh):
            hl += random_gf2_history(rng, 3, rng.choice([4, 8, 16, 40, 64]), 40)
        for k in range(nh):
            hl += random_gf2_history(rng, 3, rng.choice([24, 40, 64, 100, 160]), 30, skewed=True)
        nh += nh
        wide = list(range(0, 4)) + list(range(253, 259)) + list(range(65533, 65539)) + [16777215, 16777216, 16777217] + list(range(2147483640, 2147483647))
        for k in range(60 if tier == 'quick' else 1000):
            hl += random_gf2_history(rng, 3, 0, 30, pool=wide)
        nh += 60 if tier == 'quick' else 1000
        trace2, ev2, v2 = run_script(res, exe, wd, 'gf2h', hl, 'Trace_GF2', 'Trace_GF2.cfg', '"op":"Reset"')
        res.add_validation(v2, nh)
        judge(res, v2, 'Trace_GF2')
        res.cov['event_counts'] = {'transitions': ev, 'histories': ev2}
        res.cov['evaluations'] = sum(ev.values()) + sum(ev2.values())
        res.cov['distinct_nontrivial'] = ntrans
        res.cov['rule'] = 'distinct = distinct (register state, operation) pairs generated by TLC from SpVecGF2.tla; all are non-trivial (each executes one public operation); plus %d random histories of length 30-40 (half of them with operands of very different lengths, dimension up to 160)' % nh
        with open(trace2) as f:
            res.sample([json.loads(next(f)) for _ in range(4)])
    finally:
        shutil.rmtree(wd, ignore_errors=True)


def fp_reset_line(T, p, regs):
    return 'FPRESET %s %d %d %s' % (T, p, len(regs), ' '.join('%d %s' % (len(r), ' '.join('%d %d' % (i, v) for i, v in r)) for r in regs))


def random_fp_history(rng, T, p, R, D, length, kmax=50, long_vectors=False, pool=None):
    dom = pool if pool is not None else range(D)
    if pool is not None:
        D = len(pool)
    regs = []
    for _ in range(R):
        idx = sorted(rng.sample(dom, rng.choice([0, 1, 2, D // 2, D - 1, D]) if long_vectors else rng.randint(0, min(D, 4))))
        regs.append([(i, rng.randint(1, p - 1) if p > 1 else 1) for i in idx])
    lines = [fp_reset_line(T, p, regs)]
    ops = ['Unit', 'Copy', 'Assign', 'Plus', 'Plus', 'PlusAssign', 'PlusAssign', 'Scale', 'Scale', 'ScaleAssign', 'Dot', 'Dot', 'Clear', 'MoveAssign']
    for _ in range(length):
        op = rng.choice(ops)
        d, a, b = rng.randrange(R), rng.randrange(R), rng.randrange(R)
        if op in ('MoveAssign', 'Assign', 'PlusAssign') and rng.random() < 0.2:
            a = d                       # self assignment / self move assignment / v += v
        k = 0
        if op == 'Unit':
            a = dom[rng.randrange(D)]
        if op in ('Scale', 'ScaleAssign'):
            k = rng.choice([0, 1, -1, p, -p, 2 * p, rng.randint(-kmax, kmax), rng.randint(-kmax, kmax)])
        if op in ('Assign', 'Plus', 'Scale') and R >= 3 and rng.random() < 0.2:
            # into a default-constructed destination (SpVecFP<P> r; r = a + b;): the modulus must come along
            a, b = (d + 1) % R, (d + 1 + rng.randrange(2)) % R
            op += 'F'
        lines.append('FP %s %d %d %d %d' % (op, d, a, b, k))
    return lines


def check_C18(res, tier, seed, replay):
    rng = random.Random(seed)
    res.assumptions += ['operands are kept below 2^15 so that TLC evaluates products exactly in 32 bits',
                        'SpVecFP registers of one history are vectors over one prime p (binary operations mixing moduli are outside the property); assignment into a default-constructed vector (class default modulus) is covered and must carry p over']
    wd = vlib.scratch('C18')
    try:
        exe = harness()
        mc(res, 'ExtGcd', 'MC_ExtGcd_q.cfg' if tier == 'quick' else 'MC_ExtGcd_t.cfg',
           'ext_gcd loop model: Bezout loop invariant and postcondition for all (a,b) in -K..K')
        try:
            nob, npr = vlib.tlaps('GcdAlgebra')
        except Exception as e:
            nob, npr = 0, 0
            res.cov['tlaps_error'] = str(e)[-300:]
        res.cov['tlaps'] = {'module': 'GcdAlgebra.tla', 'obligations': nob, 'discharged': npr, 'checker_cmd': 'tlapm GcdAlgebra.tla',
                            'what': 'one ext_gcd loop iteration preserves the Bezout combinations; the sign fix-up at the exit is right (unbounded integers)'}
        K = 25 if tier == 'quick' else 40
        pure = []
        for T in ('int', 'long', 'cpp_int'):
            for a in range(-K, K + 1):
                for b in range(-K, K + 1):
                    if a or b:
                        pure.append('GCD %s %d %d' % (T, a, b))
            for _ in range(300 if tier == 'quick' else 3000):
                pure.append('GCD %s %d %d' % (T, rng.randint(-30000, 30000), rng.randint(-30000, 30000)))
            PM = 40 if tier == 'quick' else 60
            for p in range(2, PM + 1):
                for a in range(-p - 2, p + 3):
                    pure.append('INV %s %d %d' % (T, a, p))
            for _ in range(200 if tier == 'quick' else 2000):
                p = rng.randint(2, 30000)
                pure.append('INV %s %d %d' % (T, rng.randint(1, 30000) * rng.choice([1, 1, -1]), p))
            for p in range(2, 700 if tier == 'quick' else 2500):
                pure.append('PRIME %s %d' % (T, p))
            for _ in range(100 if tier == 'quick' else 1000):
                pure.append('PRIME %s %d' % (T, rng.randint(2, 2000000)))
        # multiprecision operands far beyond 31 bits (cpp_int): decided by TLC through residues modulo 12 primes
        BIGP = [2305843009213693951, 618970019642690137449562111, 1000000007, 18446744073709551557]   # primes (2^61-1, 2^89-1, ...)
        for _ in range(300 if tier == 'quick' else 4000):
            bits = rng.choice([33, 48, 64, 70, 79])
            a = rng.getrandbits(bits) * rng.choice([1, -1]); b = rng.getrandbits(rng.choice([20, 33, 64, 79])) * rng.choice([1, -1])
            if rng.random() < 0.2:
                c = rng.getrandbits(24) + 1; a *= c; b *= c          # a common factor
                if max(a.bit_length(), b.bit_length()) > 80:
                    continue
            if a or b:
                pure.append('GCDBIG %d %d' % (a, b))
        for _ in range(150 if tier == 'quick' else 2000):
            p = rng.choice(BIGP)
            a = rng.randrange(1, min(p, 1 << 79))
            pure.append('INVBIG %d %d' % (a, p))
        res.cov['exhaustive_space'] = 'ext_gcd on all pairs in -%d..%d, get_mult_inverse for all a<=p+2, p<=%d, is_prime for 2..%d, for int, long, cpp_int' % (K, K, PM, 700 if tier == 'quick' else 2500)
        trace, ev, v = run_script(res, exe, wd, 'fp_pure', pure, 'Trace_FP', 'Trace_FP.cfg', None, by_history=False)
        res.add_validation(v, len(pure))
        judge(res, v, 'Trace_FP')
        hl = []
        nh = 300 if tier == 'quick' else 5000
        for k in range(nh):
            T = rng.choice(['int', 'long', 'cpp_int'])
            p = rng.choice([2, 3, 5, 7, 11, 13, 31, 97])
            hl += random_fp_history(rng, T, p, 3, rng.choice([3, 5, 12]), 30)
        for k in range(nh // 3):       # long vectors against short ones (merge loops far from their ends, one operand exhausted early)
            hl += random_fp_history(rng, rng.choice(['int', 'long', 'cpp_int']), rng.choice([2, 3, 7, 31, 97]), 3, rng.choice([24, 48, 80]), 20, long_vectors=True)
        nh += nh // 3
        wide = list(range(0, 3)) + list(range(254, 258)) + list(range(65534, 65538)) + [16777216, 16777217] + list(range(2147483642, 2147483647))
        for k in range(40 if tier == 'quick' else 600):
            hl += random_fp_history(rng, rng.choice(['int', 'long', 'cpp_int']), rng.choice([2, 3, 7, 97]), 3, 0, 25, pool=wide)
        nh += 40 if tier == 'quick' else 600
        trace2, ev2, v2 = run_script(res, exe, wd, 'fp_hist', hl, 'Trace_FP', 'Trace_FP.cfg', '"op":"Reset"')
        res.add_validation(v2, nh)
        judge(res, v2, 'Trace_FP')
        res.cov['event_counts'] = {'pure': ev, 'histories': ev2}
        res.cov['evaluations'] = len(pure) + sum(ev2.values())
        res.cov['distinct_nontrivial'] = len(set(pure)) + nh
        res.cov['rule'] = 'distinct calls of ext_gcd/get_mult_inverse/is_prime (exhaustive small range + random < 30000) and %d random SpVecFP histories (length 30, p in {2..97}, scalars -50..50 and multiples of p)' % nh
        with open(trace) as f:
            res.sample([json.loads(next(f)) for _ in range(3)])
        with open(trace2) as f:
            res.sample([json.loads(next(f)) for _ in range(3)])
    finally:
        shutil.rmtree(wd, ignore_errors=True)


REGISTRY = {'C17': check_C17, 'C18': check_C18}
