"""C01 / C02 / C09: exact entry points, sequential.  TLC decides every recorded call against Mcb.tla."""
import json, os, random, shutil
import vlib, gens
from vlib import log

CLAUSES = {
    'C01': {"empty-cycle", "duplicate-edge", "foreign-edge", "not-simple-cycle", "dependent", "too-many-cycles",
            "wrong-count", "crash", "bad-input"},
    'C02': {"ret-ne-emitted-weight", "not-minimum", "ret-ne-optimum", "weight-vector", "crash", "bad-input"},
}
CLAUSES['C09'] = CLAUSES['C01'] | CLAUSES['C02']


def mcb_harness(vtbb=False):
    return vlib.build('h_mcb', [os.path.join(vlib.HARNESS, 'h_mcb.cpp')])


def model_checks(res, tier):
    """Design-level checks that do not involve the code: the oracles agree with each other and with an
    exhaustive search over all bases; de Pina's scheme (Sva.tla) refines Mcb for every choice it leaves open."""
    wd = vlib.scratch(res.pid + '_mc')
    try:
        if tier == 'quick':
            r = vlib.tlc_ok('MC_CycleSpace', 'MC_CycleSpace_q.cfg', extra=['-coverage', '1'])
        else:
            r = vlib.tlc_ok('MC_CycleSpace', 'MC_CycleSpace_t.cfg', extra=['-coverage', '1'], timeout=3000)
        if r['violated']:
            raise vlib.HarnessError('oracle cross-check MC_CycleSpace violated: the TLA+ oracles disagree\n' + r['out'][-3000:])
        res.add_mc('MC_CycleSpace (OptHorton = OptBrute = min over all bases; IsSimpleCycle = minimal even set)', r)
        if os.path.exists(os.path.join(vlib.SPEC, 'MC_Sva_q.cfg')):
            cfg = 'MC_Sva_q.cfg' if tier == 'quick' else 'MC_Sva_t.cfg'
            r = vlib.tlc_ok('MC_Sva', cfg, extra=['-coverage', '1'], timeout=3000)
            if r['violated']:
                raise vlib.HarnessError('MC_Sva violated: the de Pina design model does not refine Mcb\n' + r['out'][-3000:])
            res.add_mc('MC_Sva (support-vector scheme with every tie/order choice refines Mcb)', r)
        if res.pid == 'C01' and tier != 'quick':
            r = vlib.tlc_ok('TreesLookup', 'MC_TreesLookup_q.cfg', extra=['-coverage', '1'], timeout=3000)
            if r['violated']:
                raise vlib.HarnessError('MC_TreesLookup violated\n' + r['out'][-3000:])
            res.add_mc('TreesLookup.tla (per-phase search of the tree variants: parity rule + validity + weight-sorted lookup over Horton / every-FVS / ISO collections = lightest odd cycle), every S', r)
        if res.pid == 'C02':
            cfg = 'MC_SignedSearch_q.cfg' if tier == 'quick' else 'MC_SignedSearch_t.cfg'
            r = vlib.tlc_ok('SignedSearch', cfg, extra=['-coverage', '1'], timeout=3000)
            if r['violated']:
                raise vlib.HarnessError('MC_SignedSearch violated: the signed-graph search model does not compute the minimum odd cycle\n' + r['out'][-3000:])
            res.add_mc('SignedSearch.tla (signed-graph reduction: all-vertices branch and hidden-edge branch under every order = minimum odd cycle; optimum attained only by simple cycles), every S', r)
            r = vlib.tlc_ok('BiDijkstra', 'MC_BiDijkstra_q.cfg' if tier == 'quick' else 'MC_BiDijkstra_t.cfg', extra=['-coverage', '1'], timeout=6000)
            if r['violated']:
                raise vlib.HarnessError('MC_BiDijkstra violated: the step model of bidirectional_signed_dijkstra loses a path below the limit\n' + r['out'][-3000:])
            res.add_mc('BiDijkstra.tla (bidirectional signed Dijkstra step by step: alternating polls, meeting test, stopping rule, limit pruning; any minimum entry polled) returns the true signed distance iff it is below the limit', r)
    finally:
        shutil.rmtree(wd, ignore_errors=True)


def exact_inputs(res, tier, seed, wd):
    rng = random.Random(seed)
    N = 4 if tier == 'quick' else 5
    gs, r = gens.tlc_graphs(wd, N, [1, 2])
    res.cov['exhaustive_space'] = 'all simple labelled graphs with <= %d vertices, weights in {1,2}: %d graphs (TLC-enumerated)' % (N, len(gs))
    inputs = []
    for g in gs:
        inputs.append((g, 1))
    # second presentation of the same graphs: reversed insertion order, flipped endpoints
    stride = 1 if tier == 'quick' else 7
    for g in gs[::stride]:
        if g['edges']:
            inputs.append((gens.reversed_order(g), 1))
    nrand = 1200 if tier == 'quick' else 12000
    wsets = [[1], [1, 2], [1, 2, 3], [1, 2, 3, 4, 5], [3, 5, 7, 11], list(range(1, 21)), list(range(1, 101)), list(range(1, 101))]
    for g in gens.random_graphs(rng, nrand, 3, 9 if tier == 'quick' else 10, 16, wsets):
        inputs.append((g, 1))
    # dyadic doubles: multiples of 1/4 (den = 4)
    for g in gens.random_graphs(rng, nrand // 4, 3, 8, 14, [[1, 2, 3, 4, 5, 6, 7, 9], [2, 4, 5]]):
        inputs.append((g, 4))
    # hop-tie graphs: small weight sets on sparse graphs with 8..11 vertices, where equal-weight shortest paths
    # with different numbers of edges are common (stresses the lexicographic tie-breaking of the tree variants)
    for k in range(nrand):
        n = rng.randint(7, 11)
        m = min(n * (n - 1) // 2, n + rng.randint(0, 5))
        ws = rng.choice([[1, 2], [1, 2, 3], [1, 2, 3], [2, 3, 5], [1, 1, 2, 4]])
        inputs.append((gens.rand_graph(rng, n, m, lambda: rng.choice(ws)), 1))
    # dense graphs (|S| >= n branch of the signed variant)
    for n in ((5, 6) if tier == 'quick' else (5, 6, 7)):
        for ws in ([1], [1, 2]):
            inputs.append((gens.reweight(rng, gens.complete(n), ws), 1))
    for g in gens.families(rng, big=(tier != 'quick')):
        inputs.append((g, 1))
    # beyond the reach of the brute-force oracle: medium graphs validated by the polynomial oracle OptHorton (m > 12)
    for k in range(120 if tier == 'quick' else 2500):
        n = rng.randint(12, 18 if tier == 'quick' else 24)
        m = rng.randint(n, min(n * (n - 1) // 2, 2 * n + (6 if tier == 'quick' else 14)))
        ws = rng.choice([[1], [1, 2], [1, 2, 3], list(range(1, 20)), list(range(1, 200))])
        inputs.append((gens.rand_graph(rng, n, m, lambda: rng.choice(ws)), 1))
    return inputs


def to_lines(inputs):
    return [vlib.graph_line(i, g['n'], g['edges'], den) for i, (g, den) in enumerate(inputs)]


def judge(res, v, clauses, algos_note=''):
    nbad = 0
    for rj in v['rejects']:
        mine = sorted(set(rj['clauses']) & clauses)
        if not mine:
            continue
        call = rj['call']
        facts = {'algo': call.get('algo'), 'wt': call.get('wt'), 'clauses': mine, 'n': call.get('n'),
                 'edges': call.get('edges'), 'den': call.get('den'), 'meta': call.get('meta')}
        if res.violation(facts, {'trace_segment': rj['segment'], 'spec': 'Trace_Mcb'}):
            nbad += 1
    return nbad


def run_exact(res, tier, seed, replay, clauses, algos='signed,fvs,iso', types='double,int', tol=0, inputs=None, layouts=1):
    wd = vlib.scratch(res.pid)
    try:
        if replay:
            obj = json.load(open(replay))
            tr = os.path.join(wd, 'replay.ndjson')
            with open(tr, 'w') as f:
                f.write('\n'.join(obj['replay']['trace_segment']) + '\n')
            # re-run the recorded input through the current code as well
            call = json.loads(obj['replay']['trace_segment'][0])
            inputs = [({'n': call['n'], 'edges': [tuple(e) for e in call['edges']]}, call.get('den', 1))]
            algos, types = call['algo'], call['wt']
        exe = mcb_harness()
        if inputs is None:
            inputs = exact_inputs(res, tier, seed, wd)
        lines = to_lines(inputs)
        trace = vlib.parallel_record(exe, lines, wd, 'mcb', extra=['--algos', algos, '--types', types, '--tol', str(tol), '--positional'])
        if layouts > 1 and not replay:
            # memory layout as an input: the signed variant iterates std::set<edge_descriptor>, i.e. in address order of the
            # edge nodes; run it again with the nodes placed in reversed and in seeded random address orders (arena.hpp)
            sub = [ln for ln, (g, den) in zip(lines, inputs) if 6 <= len(g['edges']) <= 24][:(900 if tier == 'quick' else 12000)]
            tr2 = vlib.parallel_record(exe, sub, wd, 'mcb_layout', extra=['--algos', 'signed', '--types', 'double', '--tol', str(tol), '--layouts', str(layouts)])
            with open(trace, 'a') as f:
                f.write(open(tr2).read())
            res.cov['layout_runs'] = vlib.count_events(tr2).get('Call', 0)
        ev = vlib.count_events(trace)
        if ev.get('LayoutError', 0):
            raise vlib.HarnessError('%d LayoutError events: the arena did not realise the requested edge order' % ev['LayoutError'])
        res.cov['event_counts'] = ev
        v = vlib.validate_trace('Trace_Mcb', 'Trace_Mcb.cfg', trace)
        ncalls = ev.get('Call', 0)
        res.add_validation(v, ncalls)
        res.cov['evaluations'] = ncalls
        nontriv = set()
        for g, den in inputs:
            if gens.csd(g) >= 2:
                nontriv.add((g['n'], tuple(sorted((min(u, v), max(u, v), w) for u, v, w in g['edges'])), den))
        res.cov['distinct_nontrivial'] = len(nontriv)
        res.cov['rule'] = ('inputs: TLC-enumerated small graphs (two insertion orders), seeded random graphs n<=10 m<=16 with '
                           'tie-heavy weight sets, dyadic weights (den 4), dense graphs, structured families; each run through '
                           + algos + ' x ' + types + '; non-trivial = distinct weighted graph with cycle-space dimension >= 2')
        res.sample(vlib.sample_call(trace))
        judge(res, v, clauses)
    finally:
        shutil.rmtree(wd, ignore_errors=True)


def phase_binding(res, tier, seed):
    """Diagnostic layer (never a verdict): the emission order of every call on small graphs must be explainable as a
    behaviour of MC_Sva with TLC inferring the support vectors (Trace_Sva.tla)."""
    rng = random.Random(seed + 17)
    wd = vlib.scratch(res.pid + '_phase')
    try:
        gs, _ = gens.tlc_graphs(wd, 4, [1, 2])
        sub = [g for g in gs if gens.csd(g) >= 1]
        sub = sub[::(4 if tier == 'quick' else 1)]
        sub += [gens.reweight(rng, gens.complete(5), ws) for ws in ([1], [1, 2], [1, 2, 3, 4, 5])]
        sub += [g for g in gens.random_graphs(rng, 40 if tier == 'quick' else 600, 5, 6, 10, [[1], [1, 2], [1, 2, 3]]) if gens.csd(g) >= 1]
        lines = [vlib.graph_line(i, g['n'], g['edges'], 1) for i, g in enumerate(sub)]
        trace = vlib.parallel_record(mcb_harness(), lines, wd, 'phase', extra=['--algos', 'signed,fvs,iso', '--types', 'double', '--forest'])
        b = vlib.validate_branching('Trace_Sva', 'Trace_Sva.cfg', trace)
        res.cov['states'] += b['states']
        res.cov['transitions'] += b['transitions']
        res.cov['traces_validated_against_impl'] += b['calls']
        res.cov['phase_binding'] = {'calls_explained_by_MC_Sva_with_inferred_supports': b['calls'] - len(b['anomalies']), 'phase_anomalies': len(b['anomalies']),
                                    'note': 'diagnostic only: stronger than C01/C02, never a VIOLATION by itself',
                                    'anomaly_samples': [{'algo': a['call'].get('algo'), 'n': a['call'].get('n'), 'edges': a['call'].get('edges'), 'stuck_at_event': a['stuck_at_event']} for a in b['anomalies'][:3]]}
    finally:
        shutil.rmtree(wd, ignore_errors=True)


def check_C01(res, tier, seed, replay):
    res.assumptions += ['TLC 1.8 evaluates the TLA+ oracles correctly (OptBrute/OptHorton cross-validated by MC_CycleSpace)',
                        'harness projection edge->insertion index by property-node address is faithful',
                        'weights are small integers or dyadic rationals, sums < 2^31 (exact in double and int)']
    if not replay:
        model_checks(res, tier)
    run_exact(res, tier, seed, replay, CLAUSES['C01'], layouts=2)


def check_C02(res, tier, seed, replay):
    res.assumptions += ['TLC 1.8 evaluates the TLA+ oracles correctly (OptBrute/OptHorton cross-validated by MC_CycleSpace)',
                        'weights are small integers or dyadic rationals, sums < 2^31 (exact in double and int)']
    if not replay:
        model_checks(res, tier)
        phase_binding(res, tier, seed)
    run_exact(res, tier, seed, replay, CLAUSES['C02'], layouts=3)


REGISTRY = {'C01': check_C01, 'C02': check_C02}


def c09_inputs(rng, tier):
    inputs = []
    nr = 500 if tier == 'quick' else 8000
    # arbitrary decimal weights k/1000 in [0.001, 1000]
    for _ in range(nr):
        n = rng.randint(4, 9)
        m = rng.randint(n - 1, min(n * (n - 1) // 2, 15))
        style = rng.random()
        if style < 0.4:
            wg = lambda: rng.randint(1, 1000000)
        elif style < 0.6:
            wg = lambda: rng.choice([100, 200, 300])              # 0.1 0.2 0.3: sums that are not exact in binary
        elif style < 0.8:
            wg = lambda: rng.choice([100, 200, 300, 700, 1100, 1300])
        else:
            wg = lambda: rng.randint(1, 5000)
        inputs.append((gens.rand_graph(rng, n, m, wg), 1000))
    for g in gens.families(rng, big=False):
        inputs.append((gens.reweight(rng, g, [100, 200, 300]), 1000))
        inputs.append((gens.reweight(rng, g, list(range(1, 999))), 1000))
    # near ties: k/10 + j*1e-6 (den 10^6) and k/10 + j*1e-7 (den 10^7): distinct path weights that differ by 1e-8..1e-6
    # relative, i.e. far above double rounding and far below any 'generous' comparison slack
    for _ in range(360 if tier == 'quick' else 5000):
        n = rng.randint(5, 7)
        m = rng.randint(n + 2, min(n * (n - 1) // 2, 16))
        u = rng.random()
        if u < 0.35:
            den, wg = 1000000, (lambda: rng.randint(1, 9) * 100000 + rng.randint(0, 9))
        elif u < 0.7:
            den, wg = 10000000, (lambda: rng.randint(1, 4) * 1000000 + rng.randint(0, 9))
        else:       # differences of 1e-8 .. 1e-7 relative: below single precision, far above double rounding
            n = rng.randint(5, 6)
            m = rng.randint(n + 2, min(n * (n - 1) // 2, 11))
            den, wg = 100000000, (lambda: rng.randint(1, 3) * 10000000 + rng.randint(0, 9))
        inputs.append((gens.rand_graph(rng, n, m, wg), den))
    return inputs


def check_C09(res, tier, seed, replay):
    rng = random.Random(seed)
    res.assumptions += ['weights are k/den for integers k, den in {10^3, 10^6, 10^7, 10^8}; the oracle runs on the integers k (exact); the rounding of k/den to double (<= 2^-53 relative) is nine orders of magnitude below the 1e-9 tolerance',
                        'ret is logged as nearest integer of ret*den plus the fraction in 1e-9 units; |ret - opt| <= 1e-9 * opt is decided in 32-bit integer arithmetic']
    inputs = None if replay else c09_inputs(rng, tier)
    run_exact(res, tier, seed, replay, CLAUSES['C09'], algos='signed,fvs,iso,signed_tbb,fvs_tbb,iso_tbb', types='double', tol=1, inputs=inputs)
    res.cov['rule'] = 'random graphs n<=9, m<=15 with decimal weights k/1000 (uniform 0.001..1000, tie-provoking {0.1,0.2,0.3} patterns, small decimals), near-tie weights k/10 + j*1e-6 / j*1e-7 / j*1e-8, and reweighted families; six exact variants (sequential + real oneTBB)'


REGISTRY['C09'] = check_C09
