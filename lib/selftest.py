"""bin/check --selftest : demonstrates that the specifications are bound to something and are not vacuous.
 (1) the named deviations of the design models (pinned shapes) are REFUTED by TLC;
 (2) traces recorded from the real code are accepted, and the same traces with ONE field corrupted (or one event
     removed) are rejected at exactly that call with the expected clause.
Not part of any registered check; exit 0 = all expectations met."""
import json, os, shutil, random
import vlib, gens, p_mcb, p_comp, p_vec, p_approx


def expect_violation(module, cfg):
    r = vlib.tlc_ok(module, cfg, timeout=2400)
    ok = r['violated']
    print('%-28s %-30s %s' % (module, cfg, 'refuted as expected' if ok else 'NOT refuted  <-- problem'), flush=True)
    return ok


def validate_lines(module, cfg, lines, wd, tag, start_event):
    path = os.path.join(wd, tag + '.ndjson')
    with open(path, 'w') as f:
        f.write('\n'.join(lines) + '\n')
    return vlib.validate_trace(module, cfg, path, nchunks=1, start_event=start_event, recheck=False)


def corrupt_tests(name, module, cfg, lines, start_event, mutators, wd):
    ok = True
    v = validate_lines(module, cfg, lines, wd, name + '_orig', start_event)
    if v['rejects']:
        print('%-10s original trace REJECTED  <-- problem: %s' % (name, v['rejects'][0]['clauses'])); ok = False
    else:
        print('%-10s original trace accepted (%d events)' % (name, len(lines)))
    for desc, fn, want in mutators:
        m = fn([json.loads(l) for l in lines])
        if m is None:
            print('%-10s %-44s skipped (no applicable event)' % (name, desc)); continue
        v = validate_lines(module, cfg, [json.dumps(e, separators=(',', ':')) for e in m], wd, name + '_mut', start_event)
        got = set(c for r in v['rejects'] for c in r['clauses'])
        good = bool(got & set(want)) and (len(want) < 1 or True)
        ok = ok and good
        print('%-10s %-44s %s %s' % (name, desc, 'rejected' if good else 'NOT rejected  <-- problem', sorted(got)[:4]))
    return ok


def first_call_with_emits(evs, k=2):
    i = 0
    while i < len(evs):
        if evs[i]['e'] == 'Call':
            j = i + 1
            while j < len(evs) and evs[j]['e'] == 'Emit':
                j += 1
            if j - i - 1 >= k and j < len(evs) and evs[j]['e'] == 'Return':
                return i, j
            i = j
        else:
            i += 1
    return None


def run():
    ok = True
    wd = vlib.scratch('selftest')
    rng = random.Random(7)
    try:
        print('--- (1) named deviations must be refuted by TLC')
        for mod, cfg in (('ExtGcd', 'MC_ExtGcd_pinned.cfg'), ('MpiHidden', 'MC_MpiHidden_pinned.cfg'), ('MpiProto', 'MC_MpiProto_pinned.cfg'),
                         ('Concurrency', 'MC_Concurrency_pinned.cfg'), ('ParFor', 'MC_ParFor_pinned.cfg'), ('BiDijkstra', 'MC_BiDijkstra_pinned.cfg'),
                         ('HopBfs', 'MC_HopBfs_pinned1.cfg'), ('HopBfs', 'MC_HopBfs_pinned2.cfg'), ('Dijkstra', 'MC_Dijkstra_pinned_stale-distance.cfg'),
                         ('Dijkstra', 'MC_Dijkstra_pinned_no-decrease.cfg'), ('Dijkstra', 'MC_Dijkstra_pinned_stop-at-first.cfg')):
            ok = expect_violation(mod, cfg) and ok
        print('--- (2) recorded traces: accepted as recorded, rejected when corrupted')
        graphs = [gens.reweight(rng, gens.complete(4), [1, 2, 3]), gens.reweight(rng, gens.wheel(5), [1, 2, 3, 4]), gens.cycle(5, 2)]
        glines = [vlib.graph_line(i, g['n'], g['edges'], 1) for i, g in enumerate(graphs)]
        # Mcb
        tr = vlib.parallel_record(p_mcb.mcb_harness(), glines, wd, 'st_mcb', extra=['--algos', 'signed,fvs,iso', '--types', 'double'], nproc=1)
        lines = open(tr).read().splitlines()

        def m_ret(evs):
            p = first_call_with_emits(evs); i, j = p; evs[j]['ret'] += 1; return evs

        def m_drop(evs):
            i, j = first_call_with_emits(evs); del evs[i + 1]; return evs

        def m_dup(evs):
            i, j = first_call_with_emits(evs); evs.insert(i + 2, dict(evs[i + 1])); return evs

        def m_foreign(evs):
            i, j = first_call_with_emits(evs); evs[i + 1]['cyc'][0] = 0; return evs

        def m_notsimple(evs):
            i, j = first_call_with_emits(evs)
            m = len(evs[i]['edges']); c = evs[i + 1]['cyc']
            for e in range(1, m + 1):
                if e not in c:
                    c[0] = e; return evs
            return None
        ok = corrupt_tests('Mcb', 'Trace_Mcb', 'Trace_Mcb.cfg', lines, 'Call',
                           [('returned weight + 1', m_ret, ['ret-ne-emitted-weight', 'ret-ne-optimum']), ('one Emit removed', m_drop, ['wrong-count']),
                            ('one Emit duplicated', m_dup, ['dependent', 'too-many-cycles']), ('edge replaced by a foreign descriptor', m_foreign, ['foreign-edge']),
                            ('edge of a cycle replaced by another edge', m_notsimple, ['not-simple-cycle', 'dependent'])], wd) and ok
        # components
        trc = vlib.parallel_record(p_comp.harness(), glines, wd, 'st_comp', extra=['--modes', 'forest,fvs,spt,coll', '--types', 'double'], nproc=1)
        clines = open(trc).read().splitlines()

        def pick(evs, kind):
            for e in evs:
                if e['e'] == kind:
                    return e
            return None

        def c_forest(evs):
            e = pick(evs, 'Forest'); e['k'] += 1; return evs

        def c_forest2(evs):
            e = pick(evs, 'Forest'); e['idx'][0], e['idx'][1] = e['idx'][1], e['idx'][0]; return evs

        def c_fvs(evs):
            e = pick(evs, 'Fvs'); e['out'] = e['out'][:-1]; return evs

        def c_spt(evs):
            e = pick(evs, 'Spt'); t = e['trees'][0]; v = [i for i, d in enumerate(t['dist']) if d > 0][0]; t['dist'][v] += 1; return evs

        def c_coll(evs):
            e = pick(evs, 'Coll'); e['horton']['cands'][0][2] += 1; return evs

        def c_coll2(evs):
            e = pick(evs, 'Coll'); e['iso']['cands'] = e['iso']['cands'][:1]; return evs
        ok = corrupt_tests('Comp', 'Trace_Comp', 'Trace_Comp.cfg', clines, None,
                           [('ForestIndex: component count + 1', c_forest, ['components', 'dimension']), ('ForestIndex: two indices swapped', c_forest2, ['lookups-not-inverse', 'onforest-vs-index', 'not-spanning-forest']),
                            ('greedy_fvs: last vertex dropped', c_fvs, ['remaining-graph-has-cycle']), ('SPTree: one distance + 1', c_spt, ['distance', 'pred-not-a-shortest-path-tree']),
                            ('Horton candidate weight + 1', c_coll, ['horton:candidate-weight']), ('ISO collection truncated to one candidate', c_coll2, ['iso:does-not-span-cycle-space', 'iso:no-minimum-basis-inside'])], wd) and ok
        # MPI message level
        import p_mpi
        k4 = [vlib.graph_line(0, 4, [(0, 1, 1), (1, 2, 2), (2, 3, 1), (3, 0, 2), (0, 2, 1), (1, 3, 2)], 1)]
        trm = vlib.parallel_record(p_mpi.harness(), k4, wd, 'st_msg', extra=['--msg', '--P', '2', '--layouts', 'identity', '--algos', 'fvs_mpi'], nproc=1)
        mlines = open(trm).read().splitlines()

        def nth(evs, kind, n=0):
            return [e for e in evs if e.get('kind') == kind][n]

        def g_weight(evs):
            nth(evs, 'reduce')['ins'][1]['w'] += 1; return evs

        def g_noreduce(evs):
            evs.remove(nth(evs, 'reduce')); return evs

        def g_stride(evs):
            sc = nth(evs, 'scatter'); sc['val'][0].append(sc['val'][1].pop()); return evs

        def g_notmin(evs):
            r = nth(evs, 'reduce'); r['out'] = r['ins'][0] if r['ins'][0] != r['out'] else r['ins'][1]; return evs

        def g_support(evs):
            b = nth(evs, 'broadcast', 1); b['val'] = b['val'] + [2] if 2 not in b['val'] else [x for x in b['val'] if x != 2]; return evs
        ok = corrupt_tests('MpiMsg', 'Trace_MpiMsg', 'Trace_MpiMsg.cfg', mlines, 'Run',
                           [('contribution weight + 1', g_weight, ['contribution-weight']), ('one reduce removed', g_noreduce, ['collective-out-of-sequence']),
                            ('scatter chunks unbalanced', g_stride, ['scatter-not-ceil-stride']), ('reduce result is not the minimum', g_notmin, ['reduce-result-not-minimum-of-contributions', 'emitted-cycle-is-not-the-reduce-result']),
                            ('broadcast support vector altered', g_support, ['support-is-not-a-support-of-the-model', 'contribution-not-an-odd-cycle'])], wd) and ok
        # approx / spanner
        tra = vlib.parallel_record(p_approx.harness(), glines, wd, 'st_sp', extra=['--ks', '2', '--types', 'double', '--spanner'], nproc=1)
        alines = open(tra).read().splitlines()

        def s_w(evs):
            e = pick(evs, 'Spanner'); e['kept'][0][3] += 1; return evs

        def s_part(evs):
            for e in evs:
                if e['e'] == 'Spanner' and e['dropped']:
                    e['dropped'] = e['dropped'][:-1]; return evs
            return None

        def s_keepall(evs):
            for e in evs:
                if e['e'] == 'Spanner' and e['dropped']:
                    d = e['dropped'].pop(); u, v, w = e['edges'][d - 1]; e['kept'].append([d, u, v, w]); return evs
            return None
        ok = corrupt_tests('Spanner', 'Trace_Approx', 'Trace_Approx.cfg', alines, 'Spanner',
                           [('spanner edge weight + 1', s_w, ['spanner-weight-not-carried-over']), ('one dropped edge missing', s_part, ['not-a-partition-of-the-edges']),
                            ('a dropped edge reported as kept (k=2)', s_keepall, ['short-cycle-in-spanner'])], wd) and ok
        # GF2
        script = p_vec.random_gf2_history(rng, 3, 8, 25)
        trg, _, _ = p_vec.run_script(None, p_vec.harness(), wd, 'st_gf2', script, 'Trace_GF2', 'Trace_GF2.cfg', '"op":"Reset"', nproc=1)
        glns = open(trg).read().splitlines()

        def g_regs(evs):
            for e in evs:
                if e['op'] == 'Plus':
                    r = e['regs'][e['d']]
                    if r:
                        r.pop()
                    else:
                        r.append(3)
                    e['sizes'][e['d']] = len(r); return evs
            return None

        def g_dot(evs):
            for e in evs:
                if e['op'] in ('Dot', 'DotSet'):
                    e['res'] = 1 - e['res']; return evs
            return None

        def g_order(evs):
            for e in evs:
                if any(len(r) >= 2 for r in e['regs']):
                    r = [r for r in e['regs'] if len(r) >= 2][0]; r[0], r[1] = r[1], r[0]; return evs
            return None
        ok = corrupt_tests('GF2', 'Trace_GF2', 'Trace_GF2.cfg', glns, '"op":"Reset"',
                           [('result vector of a + altered', g_regs, ['wrong-result-vector']), ('product flipped', g_dot, ['product']), ('two coordinates listed out of order', g_order, ['not-canonical'])], wd) and ok
        # Demo: a long clause set (TLC prints it over several lines - the REJECT parser must cope)
        dem = [json.dumps({'e': 'Demo', 'prog': 'mcb-dimacs', 'opts': '', 'k': 0, 'P': 0, 'rank_exits': [], 'n': 3, 'edges': [[0, 1, 1], [1, 2, 1], [2, 0, 1]],
                           'exit': 0, 'timedout': False, 'diag': False, 'ranalgo': True, 'hasweight': True, 'weight': 3000}, separators=(',', ':'))]

        def d_invalid(evs):
            evs[0]['edges'].append([1, 0, 2]); return evs

        def d_weight(evs):
            evs[0]['weight'] = 4000; return evs
        ok = corrupt_tests('Demo', 'Trace_Demo', 'Trace_Demo.cfg', dem, None,
                           [('valid run turned into an accepted invalid input (3 clauses)', d_invalid, ['accepted-invalid-input']), ('printed weight + 1', d_weight, ['printed-weight-not-optimum'])], wd) and ok
    finally:
        shutil.rmtree(wd, ignore_errors=True)
    print('selftest', 'OK' if ok else 'FAILED')
    return 0 if ok else 1
