"""C08: the reported optimum is a function of the weighted graph alone (History.tla)."""
import json, os, random, shutil
import vlib, gens, p_mcb


def subdivide(rng, g):
    es = list(g['edges'])
    cand = [i for i, e in enumerate(es) if e[2] >= 2]
    if not cand:
        return None
    i = rng.choice(cand)
    u, v, w = es[i]
    w1 = rng.randint(1, w - 1)
    x = g['n']
    es[i] = (u, x, w1)
    es.insert(rng.randint(0, len(es)), (x, v, w - w1))
    return {'n': g['n'] + 1, 'edges': es}


def padded(rng, g):
    """isolated vertices, pendant trees and a bridge to a new tree: same cycle space"""
    h = gens.with_pendant(rng, g, rng.randint(1, 4))
    n = h['n'] + rng.randint(1, 3)      # isolated vertices
    es = list(h['edges'])
    # a bridge to a small path
    if g['n'] > 0:
        a = rng.randrange(g['n'])
        es.append((a, n, rng.randint(1, 9)))
        es.append((n, n + 1, rng.randint(1, 9)))
        n += 2
    return {'n': n, 'edges': es}


def scaled(g, f):
    return {'n': g['n'], 'edges': [(u, v, w * f) for (u, v, w) in g['edges']]}


def base_graph(rng, size):
    kind = rng.random()
    ws = rng.choice([[1, 2, 3, 4], [2, 3, 5, 7, 8], list(range(1, 17)), list(range(2, 40)), [4]])
    if kind < 0.45:
        n = rng.randint(max(4, size // 2), size)
        m = min(n * (n - 1) // 2, rng.randint(n, 2 * n + 2))
        return gens.rand_graph(rng, n, m, lambda: rng.choice(ws))
    if kind < 0.6:
        a = max(2, int(size ** 0.5))
        return gens.reweight(rng, gens.grid(a, max(2, size // a)), ws)
    if kind < 0.7:
        # torus-like: grid with wrap-around columns
        a = max(3, int(size ** 0.5)); b = max(3, size // a)
        g = gens.grid(a, b)
        es = list(g['edges']) + [(i * b, i * b + b - 1, 1) for i in range(a)]
        return gens.reweight(rng, {'n': g['n'], 'edges': es}, ws)
    if kind < 0.8:
        # random 3-regular-ish: cycle plus random perfect matching chords
        n = max(6, size - size % 2)
        perm = list(range(n)); rng.shuffle(perm)
        es = {(min(i, (i + 1) % n), max(i, (i + 1) % n)) for i in range(n)}
        for i in range(0, n, 2):
            a, b = perm[i], perm[i + 1]
            if a != b:
                es.add((min(a, b), max(a, b)))
        return {'n': n, 'edges': [(u, v, rng.choice(ws)) for (u, v) in sorted(es)]}
    if kind < 0.9:
        n = rng.randint(5, max(5, min(size, 14)))
        return gens.reweight(rng, gens.complete(n), ws)
    return gens.reweight(rng, gens.union(gens.cycle(rng.randint(3, 8)), gens.wheel(rng.randint(4, 9))), ws)


def check_C08(res, tier, seed, replay):
    rng = random.Random(seed)
    res.assumptions += ['the driver\'s graph transformations (renumbering, padding, union, subdivision, scaling) are re-validated by the TLA+ oracle whenever the graph is small enough (m <= 14)',
                        'weights are integers (quarter units), all sums < 2^31']
    wd = vlib.scratch('C08')
    try:
        exe_seq = p_mcb.mcb_harness()
        exe_vtbb = vlib.build('h_mcb_vtbb', [os.path.join(vlib.HARNESS, 'h_mcb.cpp')], flags=['-DVERIF_VTBB'], libs=('-lboost_timer',), shim='vtbb')
        nfam = 36 if tier == 'quick' else 220
        lines = []          # (line, fam, gid)
        defs = {}           # fam -> list of def dicts in gid order
        item = 0
        sizes = []
        for f in range(nfam):
            if tier == 'quick':
                size = rng.choice([6, 8, 10, 14, 20, 30, 40])
            else:
                size = rng.choice([6, 8, 10, 14, 20, 40, 80, 150, 250, 400])
            A = base_graph(rng, size)
            B = base_graph(rng, max(5, size // 3))
            graphs = []     # (gid, graph, def)
            dens = {}
            small = lambda g: len(g['edges']) <= 14

            def mk(gid, g, rel, args, fct=1, den=4):
                dens[gid] = den
                d = {'e': 'Def', 'id': gid, 'rel': rel, 'args': args, 'f': fct, 'n': g['n'], 'm': len(g['edges']), 'small': small(g),
                     'edges': [list(e) for e in g['edges']] if small(g) else []}
                graphs.append((gid, g, d))
            mk(0, A, 'base', [])
            mk(1, B, 'base', [])
            mk(2, gens.union(A, B), 'union', [0, 1])
            sd = subdivide(rng, A)
            if sd:
                mk(3, sd, 'subdiv', [0])
            mk(4, scaled(A, 2), 'scale', [0], 2)
            mk(5, scaled(A, 8), 'scale', [0], 8)
            mk(6, padded(rng, A), 'same', [0])
            mk(7, gens.union(padded(rng, B), scaled(A, 2)), 'union', [1, 4])
            # scaling DOWN by powers of two: same integer weights over a larger power-of-two denominator; in logged units
            # (returned value x denominator) the optimum must be literally the same number
            mk(8, A, 'same', [0], den=4 * 2 ** 20)
            mk(9, gens.permuted(rng, A), 'same', [0], den=4 * 2 ** 34)
            mk(10, A, 'same', [0], den=4 * 2 ** 45)
            defs[f] = [d for _, _, d in graphs]
            sizes.append((A['n'], len(A['edges']), gens.csd(A)))
            for gid, g, d in graphs:
                pres = [g, gens.permuted(rng, g), gens.reversed_order(g)]
                if tier != 'quick':
                    pres.append(gens.permuted(rng, g))
                for p in pres:
                    lines.append((vlib.graph_line(item, p['n'], p['edges'], dens[gid], extra=['fam=%d' % f, 'gid=%d' % gid]), f, gid))
                    item += 1
        # small sparse graphs with equal-weight shortest paths of different hop counts (where the lexicographic tie-breaking of the
        # tree variants decides): one abstract graph each, under many vertex numberings / edge orders, all entry points
        nhop = 800 if tier == 'quick' else 6000
        ngroups = 32
        for gidx in range(ngroups):
            defs[nfam + gidx] = []
        for j in range(nhop):
            f = nfam + j % ngroups                  # the file (one TLC run per file); the abstract graph's id inside it is j
            n = rng.randint(6, 11)
            m = min(n * (n - 1) // 2, n + rng.randint(0, 5))
            ws = rng.choice([[1, 2], [1, 2, 3], [1, 2], [2, 3, 5], [1, 1, 2, 4]])
            A = gens.rand_graph(rng, n, m, lambda: rng.choice(ws))
            defs[f].append({'e': 'Def', 'id': j, 'rel': 'base', 'args': [], 'f': 1, 'n': A['n'], 'm': len(A['edges']), 'small': False, 'edges': []})
            for p in [A, gens.reversed_order(A)] + [gens.permuted(rng, A) for _ in range(5)]:
                lines.append((vlib.graph_line(item, p['n'], p['edges'], 4, extra=['fam=%d' % f, 'gid=%d' % j]), f, j))
                item += 1
        # sparse weighted graphs with 40-70 vertices (supports with many signed edges, pruned searches): one abstract graph each,
        # three presentations, every entry point
        nmid = 40 if tier == 'quick' else 400
        for j in range(nhop, nhop + nmid):
            f = nfam + j % ngroups
            n = rng.randint(40, 70)
            A = gens.rand_graph(rng, n, int(2.5 * n), lambda: rng.randint(1, 1000))
            defs[f].append({'e': 'Def', 'id': j, 'rel': 'base', 'args': [], 'f': 1, 'n': A['n'], 'm': len(A['edges']), 'small': False, 'edges': []})
            for p in (A, gens.reversed_order(A), gens.permuted(rng, A)):
                lines.append((vlib.graph_line(item, p['n'], p['edges'], 4, extra=['fam=%d' % f, 'gid=%d' % j]), f, j))
                item += 1
        res.cov['mid_size_graphs'] = nmid
        nfiles = nfam + ngroups
        res.cov['families'] = nfam
        res.cov['hop_tie_graphs'] = nhop
        res.cov['largest_base_graphs'] = sorted(sizes, key=lambda t: -t[2])[:5]
        all_lines = [l for l, _, _ in lines]
        # sequential variants on every presentation; TBB backends on a subset of presentations
        tr_seq = vlib.parallel_record(exe_seq, all_lines, wd, 'seq', extra=['--algos', 'signed,fvs,iso', '--types', 'double', '--no-emit', '--call-timeout', '600'], timeout=7000)
        tr_tbb = vlib.parallel_record(exe_seq, all_lines[::2], wd, 'tbb', extra=['--algos', 'signed_tbb,fvs_tbb,iso_tbb', '--types', 'double', '--no-emit', '--call-timeout', '600'], nproc=4, timeout=7000)
        tr_vtbb = vlib.parallel_record(exe_vtbb, all_lines[1::2], wd, 'vtbb', extra=['--algos', 'signed_tbb,fvs_tbb,iso_tbb', '--types', 'double', '--no-emit', '--call-timeout', '600'], timeout=7000)
        # group the recorded calls by (family, abstract graph); only the explicit tags are used
        seg = {}
        ncalls = 0
        for tr in (tr_seq, tr_tbb, tr_vtbb):
            cur = None
            with open(tr) as f:
                for ln in f:
                    if '"e":"Call"' in ln:
                        o = json.loads(ln)
                        # drop the edge list of the call line: the History spec only needs the tag (keeps TLC's parse small)
                        o['edges'] = []
                        cur = (o['meta']['fam'], o['meta']['gid'])
                        seg.setdefault(cur, []).append(json.dumps(o))
                        ncalls += 1
                    elif cur is not None:
                        seg[cur].append(ln.strip())
        files = []
        for f in range(nfiles):
            path = os.path.join(wd, 'fam%d.ndjson' % f)
            with open(path, 'w') as o:
                for d in defs[f]:
                    o.write(json.dumps(d) + '\n')
                    for ln in seg.get((f, d['id']), []):
                        o.write(ln + '\n')
            files.append(path)
        with open(files[0]) as f:
            res.sample([json.loads(next(f)) for _ in range(5)])
        v = vlib.validate_trace('Trace_History', 'Trace_History.cfg', None, files=files)
        res.add_validation(v, ncalls)
        res.cov['evaluations'] = ncalls
        res.cov['distinct_nontrivial'] = sum(1 for f in range(nfam) for d in defs[f])
        res.cov['rule'] = ('families of abstract graphs (two bases, their union, a subdivision, scalings by 2 and 8, a padded copy, a union of derived graphs); every abstract graph in 3-4 presentations '
                           '(renumbered, re-ordered, reversed); every presentation through signed/fvs/iso sequentially and through the three TBB variants under real oneTBB or vtbb random schedules; '
                           'plus small hop-tie graphs (one abstract graph each, 7 presentations); distinct_nontrivial = abstract graphs with a declared relation')
        res.cov['event_counts'] = {'calls': ncalls, 'families': nfam}
        for rj in v['rejects']:
            call = rj['call']
            facts = {'algo': call.get('algo'), 'clauses': rj['clauses'], 'meta': call.get('meta'), 'rel': call.get('rel'), 'id': call.get('id')}
            res.violation(facts, {'trace_segment': rj['segment'][:4], 'spec': 'Trace_History'})
    finally:
        shutil.rmtree(wd, ignore_errors=True)


REGISTRY = {'C08': check_C08}
