"""bin/check --setup: offline sanity of the tool chain (nothing is downloaded, nothing outside .build is written)."""
import os, shutil, subprocess, sys
import vlib


def run():
    ok = True
    for tool in ('java', 'g++', 'clang++', 'mpicxx', 'mpiexec', 'nm', 'cmake'):
        if shutil.which(tool) is None:
            print('missing tool:', tool); ok = False
    for j in vlib.JAR.split(':'):
        if not os.path.exists(j):
            print('missing', j); ok = False
    os.makedirs(vlib.BUILD, exist_ok=True)
    r = vlib.tlc('MC_CycleSpace', 'MC_CycleSpace_q.cfg', workers=4, timeout=600)
    if r['rc'] != 0:
        print('TLC smoke test failed rc=%s\n%s' % (r['rc'], r['out'][-2000:])); ok = False
    print('setup', 'ok' if ok else 'FAILED')
    return 0 if ok else 2
