"""C10: DIMACS reader and validators.  C11: the demo programs (real processes, real mpiexec)."""
import json, os, random, shutil, subprocess, re, time
import concurrent.futures as cf
import vlib, gens

OMITTED = -1000000


def render_weight(rng, w):
    """w in 1/1000 units -> one of several spellings"""
    if w % 1000 == 0:
        k = w // 1000
        return rng.choice([str(k), '%d.0' % k, '%d.000' % k, '%.1f' % k])
    s = ('%.3f' % (w / 1000.0)).rstrip('0')
    return rng.choice([s, '%.3f' % (w / 1000.0)])


def render_file(rng, f, plain=False):
    out = []
    nedges = sum(1 for ln in f['lines'] if ln['k'] == 'e')
    for ln in f['lines']:
        if ln['k'] == 'c':
            if not plain and rng.random() < 0.08:      # long comment lines, up to just below the reader's 1024-byte line buffer
                out.append(rng.choice(['c ', '# ', 'c', 'c e 1 2 ']) + ''.join(rng.choice('xyz 0123456789 e a p') for _ in range(rng.choice([200, 700, 1000, 1012]))))
            else:
                out.append('c' if plain else rng.choice(['c a comment', '# another comment', 'c', '#', 'c p edge 9 9', 'c e 1 2 3']))
        elif ln['k'] == 'p':
            # the edge count of the problem line is informative only: the reader must give one edge per edge line whatever it says
            mdecl = nedges if plain else rng.choice([nedges, nedges, 0, max(0, nedges - 1), 1, nedges + 3, nedges // 2])
            out.append('p %s %d %d' % ('edge' if plain else rng.choice(['edge', 'sp', 'col']), ln['n'], mdecl))
        else:
            tag = 'e' if plain else rng.choice(['e', 'a'])
            sep = ' ' if plain else rng.choice([' ', '  ', '\t'])
            if not plain and rng.random() < 0.05:      # very wide separators / long edge lines (still below the buffer size)
                sep = rng.choice([' ', '\t']) * rng.choice([50, 200, 300])
            # leading zeros are ordinary decimal notation (ids 01 002, weights 007 / 03.50); not for negative ids
            zs = (lambda x: ('0' * rng.randint(1, 2) + str(x)) if (not plain and x >= 0 and rng.random() < 0.06) else str(x))
            if ln['w'] == OMITTED:
                out.append(sep.join([tag, zs(ln['s']), zs(ln['t'])]))
            else:
                wtxt = render_weight(rng, ln['w'])
                if not plain and ln['w'] >= 0 and rng.random() < 0.06:
                    wtxt = '0' * rng.randint(1, 2) + wtxt
                out.append(sep.join([tag, zs(ln['s']), zs(ln['t']), wtxt]))
    txt = '\n'.join(out)
    if f['nl'] and out:
        txt += '\n'
    return txt


def gen_files(wd, NV, NL, WS, MV, ME, MW):
    out, outm = os.path.join(wd, 'files.ndjson'), os.path.join(wd, 'multi.ndjson')
    cfg = os.path.join(wd, 'Gen_Dimacs.cfg')
    with open(cfg, 'w') as f:
        f.write('CONSTANTS NV = %d NL = %d WS = {%s} MV = %d ME = %d\nINIT GInit\nNEXT GNext\nCHECK_DEADLOCK FALSE\n' % (
            NV, NL, ','.join(map(str, WS)), MV, ME))
    vlib.tlc_ok('Gen_Dimacs', cfg, workers=1, env={'GEN_OUT': out, 'GEN_OUT_M': outm}, tag='gen', xmx='8g')
    files = [json.loads(l) for l in open(out) if l.strip()]
    multi = [json.loads(l) for l in open(outm) if l.strip()]
    return files, multi


def random_file(rng, nv, nl):
    lines = []
    for _ in range(rng.randint(0, 2)):
        lines.append({'k': 'c'})
    lines.append({'k': 'p', 'n': nv, 'm': 0})
    for _ in range(nl):
        if rng.random() < 0.15:
            lines.append({'k': 'c'})
        else:
            hi = nv + (1 if rng.random() < 0.05 else 0)
            s_, t_ = rng.randint(1, max(1, hi)), rng.randint(1, max(1, hi))
            if rng.random() < 0.04:         # an endpoint that no problem line can declare: 0, negative, far out of range
                bad = rng.choice([0, 0, -1, -7, nv + 2, nv + 1000])
                if rng.random() < 0.5:
                    s_ = bad
                else:
                    t_ = bad
            lines.append({'k': 'e', 's': s_, 't': t_,
                          'w': rng.choice([OMITTED, 1000, 2000, 15000, 2500, 125, 999000, 31000, 1, 100000, 100, 3700, 333, 700, 12345678, 16777217])})
    return {'lines': lines, 'nl': rng.random() < 0.5}


def harness():
    return vlib.build('h_dimacs', [os.path.join(vlib.HARNESS, 'h_dimacs.cpp')])


def check_C10(res, tier, seed, replay):
    rng = random.Random(seed)
    res.assumptions += ['the concrete rendering of an abstract file (tag letter, separators, integer/decimal spelling of the weight) is done by the driver and is part of the trusted base',
                        'weights are multiples of 0.001 below 1e6 so that x1000 is an exact integer']
    wd = vlib.scratch('C10')
    try:
        r = vlib.tlc_ok('Dimacs', 'MC_Dimacs.cfg' if tier == 'quick' else 'MC_Dimacs_t.cfg', extra=['-coverage', '1'], timeout=3000)
        if r['violated']:
            raise vlib.HarnessError('MC_Dimacs violated\n' + r['out'][-3000:])
        res.add_mc('Dimacs.tla: line-by-line reader machine = whole-file meaning (edges in file order, declared endpoints only, error at the first undeclared endpoint), all files within the bound', r)
        exe = harness()
        if tier == 'quick':
            files, multi = gen_files(wd, 2, 2, [1000, 2700], 2, 3, [-1, 0, 1])
        else:
            # <= 2 body lines over 2 declared vertices and three weights, plus <= 3 body lines over 1 declared vertex (endpoints 0..NV+1)
            files, multi = gen_files(wd, 2, 2, [1000, 2700, 15000], 3, 3, [-1, 0, 1])
            f3, _ = gen_files(wd, 1, 3, [15000], 1, 0, [-1, 0, 1])
            files += f3
        res.cov['exhaustive_space'] = '%d abstract files (<= %d body lines over <= 2 declared vertices, endpoints 0..NV+1, comments anywhere, weights present/omitted/decimal, with/without trailing newline); %d multigraphs for the validators' % (
            len(files), 2 if tier == 'quick' else 3, len(multi))
        fdir = os.path.join(wd, 'files')
        os.makedirs(fdir)
        script = []
        nfile = 0
        allfiles = [(f, True) for f in files] + [(f, False) for f in files[::3]]
        nr = 400 if tier == 'quick' else 6000
        allfiles += [(random_file(rng, rng.choice([1, 2, 3, 5, 9, 10, 12, 25, 120]), rng.randint(0, 12)), False) for _ in range(nr)]
        # many vertices: ids around 2^8 and 2^16 (an id or a counter narrower than the declared range wraps there)
        for nv in (255, 256, 257, 65535, 65536, 65537, 70000):
            ids = [x for x in (1, 2, 254, 255, 256, 257, 65534, 65535, 65536, 65537, nv - 1, nv, nv + 1) if x >= 1]
            for rep in range(2):
                lines_ = [{'k': 'p', 'n': nv, 'm': 0}]
                for _ in range(6):
                    a_, b_ = rng.choice(ids), rng.choice(ids)
                    if rep == 0:
                        a_, b_ = min(a_, nv), min(b_, nv)          # a valid file
                    lines_.append({'k': 'e', 's': a_, 't': b_, 'w': rng.choice([OMITTED, 1000, 2500])})
                allfiles.append(({'lines': lines_, 'nl': bool(rep)}, False))
        for f, plain in allfiles:
            path = os.path.join(fdir, 'f%d.dimacs' % nfile)
            nfile += 1
            with open(path, 'w') as o:
                o.write(render_file(rng, f, plain))
            script.append('READ %s %s' % (path, json.dumps(f, separators=(',', ':'))))
        for g in multi:
            script.append(vlib.graph_line(0, g['n'], g['edges'], 1))
        for _ in range(200 if tier == 'quick' else 3000):
            n = rng.randint(1, 6)
            es = [(rng.randrange(n), rng.randrange(n), rng.choice([-2, -1, 0, 1, 2, 5])) for _ in range(rng.randint(0, 8))]
            script.append(vlib.graph_line(0, n, es, rng.choice([1, 2, 4])))
        # the validators decide by SIGN: magnitudes far below 1 (1e-12 ... denormal) and far above must not matter
        for _ in range(120 if tier == 'quick' else 1500):
            n = rng.randint(2, 6)
            es = [(rng.randrange(n), rng.randrange(n), rng.choice([-3, -1, 0, 1, 1, 2, 7])) for _ in range(rng.randint(1, 7))]
            den_ = rng.choice([1, 3, 10 ** 17, 9 * 10 ** 18])
            # (kept above the smallest denormal, 4.9e-324, so that a non-zero w never becomes 0)
            exps = [0, -12, -16, -17, -20, -100, -300, -320, 30, 200] if den_ <= 3 else [0, -12, -16, -17, -20, -100, -300, 30, 200]
            script.append(vlib.graph_line(0, n, es, den_, extra=['exp10=%d' % rng.choice(exps)]))
        import p_vec
        trace, ev, v = p_vec.run_script(res, exe, wd, 'dimacs', script, 'Trace_Dimacs', 'Trace_Dimacs.cfg', None, by_history=False)
        res.add_validation(v, len(script))
        res.cov['event_counts'] = ev
        res.cov['evaluations'] = len(script)
        res.cov['distinct_nontrivial'] = len(files) + len(multi)
        res.cov['no_trailing_newline_files'] = sum(1 for f, _ in allfiles if not f['nl'])
        res.cov['rule'] = 'every TLC-enumerated abstract file rendered once canonically and (every third) once with random spellings, plus random longer files; every TLC-enumerated multigraph for the validators plus random multigraphs'
        with open(trace) as f:
            res.sample([json.loads(next(f)) for _ in range(2)])
        for rj in v['rejects']:
            call = rj['call']
            facts = {'event': call.get('e'), 'clauses': rj['clauses'], 'file': call.get('file'), 'n': call.get('n'), 'edges': call.get('edges')}
            txt = None
            if call.get('path') and os.path.exists(call['path']):
                txt = open(call['path']).read()
            res.violation(facts, {'trace_segment': rj['segment'][:1], 'spec': 'Trace_Dimacs', 'file_text': txt})
    finally:
        shutil.rmtree(wd, ignore_errors=True)


REGISTRY = {'C10': check_C10}


# ------------------------------------------------------------------------------------------------- C11
def build_demos():
    src = os.path.join(vlib.REPO, 'src')
    common = ('-ltbb', '-lboost_timer', '-lboost_program_options', '-lboost_thread', '-lboost_system', '-lpthread')
    specs = [dict(name='demo_' + n.replace('-', '_'), sources=[os.path.join(src, n + '.cpp')], libs=common)
             for n in ('mcb-dimacs', 'approx-mcb-dimacs', 'collection-stats-dimacs')]
    specs.append(dict(name='demo_mcb_dimacs_mpi', sources=[os.path.join(src, 'mcb-dimacs-mpi.cpp')], cxx='mpicxx',
                      libs=common + ('-lboost_mpi', '-lboost_serialization')))
    exes = vlib.build_many(specs)
    return dict(zip(['mcb-dimacs', 'approx-mcb-dimacs', 'collection-stats-dimacs', 'mcb-dimacs-mpi'], exes))


def demo_file_text(g, trailing_nl=True):
    lines = ['c generated', 'p edge %d %d' % (g['n'], len(g['edges']))]
    for (u, v, w) in g['edges']:
        lines.append('e %d %d %d' % (u + 1, v + 1, w))
    return '\n'.join(lines) + ('\n' if trailing_nl else '')


WEIGHT_RE = re.compile(r'MCB weight = ([-+0-9.eE]+|inf|nan)')


def run_demo(exe, args, timeout, mpi_p=None):
    cmd = [exe] + args
    if mpi_p is not None:
        cmd = ['mpiexec', '--allow-run-as-root', '--oversubscribe', '-n', str(mpi_p)] + cmd
    t0 = time.time()
    try:
        p = subprocess.Popen(cmd, stdout=subprocess.PIPE, stderr=subprocess.PIPE, text=True, errors='replace', start_new_session=True)
        try:
            so, se = p.communicate(timeout=timeout)
            return p.returncode, False, so, se, time.time() - t0
        except subprocess.TimeoutExpired:
            import signal
            try:
                os.killpg(p.pid, signal.SIGKILL)
            except OSError:
                pass
            so, se = p.communicate()
            return -9, True, so or '', se or '', time.time() - t0
    except OSError as e:
        raise vlib.HarnessError('cannot run %s: %s' % (cmd, e))


def demo_event(prog, opts, k, P, g, rc, timedout, so, se):
    m = WEIGHT_RE.search(so)
    weight = -1
    has = False
    if m:
        has = True
        try:
            x = float(m.group(1))
            weight = int(round(x * 1000)) if abs(x) < 2e6 else -2
        except ValueError:
            weight = -2
    # Open MPI's own abort banner does not count as the program's diagnostic
    diag_text = '\n'.join(l for l in se.splitlines() if 'aborting' in l or 'Graph has' in l or 'Invalid' in l or 'rror' in l)
    return {'e': 'Demo', 'prog': prog, 'opts': opts, 'k': k, 'P': P or 0, 'rank_exits': [], 'n': g['n'], 'edges': [list(e) for e in g['edges']], 'exit': rc if not timedout else -9,
            'timedout': timedout, 'diag': bool(se.strip()) if P is None else bool(diag_text.strip()), 'ranalgo': 'Using ' in so and ('MCB' in so.split('Using ', 1)[1][:40] or 'PAR' in so.split('Using ', 1)[1][:40]),
            'hasweight': has, 'weight': weight}


def demo_inputs(rng, tier):
    valid = [gens.cycle(3, 15), gens.reweight(rng, gens.complete(4), [1, 2, 3, 4, 5, 6]), gens.reweight(rng, gens.petersen(), [1, 2, 3]),
             gens.reweight(rng, gens.grid(3, 3), [1, 2]), gens.union(gens.cycle(4, 2), gens.cycle(3, 7)), {'n': 4, 'edges': [(0, 1, 3), (1, 2, 4)]},
             gens.reweight(rng, gens.wheel(6), [2, 3, 5]), gens.petals(4, 50, 2, 1)]
    # disconnected graphs with fewer edges than vertices that still contain cycles, isolated vertices, many components
    valid += [gens.union(gens.with_tree_components(rng, gens.cycle(3, 3), 2), {'n': 1, 'edges': []}),
              gens.union(gens.union(gens.cycle(3, 2), gens.cycle(3, 1)), {'n': 3, 'edges': []}),
              gens.with_tree_components(rng, gens.cycle(4, 2), 4)]
    valid += gens.random_graphs(rng, 4 if tier == 'quick' else 40, 5, 9, 14, [[1, 2, 3], list(range(1, 30))])
    base = gens.reweight(rng, gens.complete(4), [1, 2, 3])
    invalid = []
    e = list(base['edges'])
    invalid.append({'n': 4, 'edges': e + [(2, 2, 1)]})                      # self-loop
    invalid.append({'n': 4, 'edges': e + [(1, 0, 5)]})                      # parallel edge
    invalid.append({'n': 4, 'edges': e[:3] + [(e[3][0], e[3][1], 0)] + e[4:]})    # zero weight
    invalid.append({'n': 4, 'edges': e[:2] + [(e[2][0], e[2][1], -3)] + e[3:]})   # negative weight
    invalid.append({'n': 4, 'edges': e + [(3, 3, -1), (0, 1, 2)]})          # several at once
    invalid.append({'n': 3, 'edges': [(0, 0, 1)]})
    # systematic: exactly one violation at EVERY position of the edge list (first, any middle, last line) of a 6-edge and
    # a 7-edge graph (7 is divisible by no process count in 2..6, so 'the last m mod P edges' is never empty)
    systematic = []
    for bg in (base, {'n': 5, 'edges': list(base['edges']) + [(3, 4, 2)]}):
        e = list(bg['edges'])
        for i in range(len(e)):
            for bad in (0, -2):
                systematic.append({'n': bg['n'], 'edges': e[:i] + [(e[i][0], e[i][1], bad)] + e[i + 1:]})
        for pos in (0, len(e) // 2, len(e)):
            systematic.append({'n': bg['n'], 'edges': e[:pos] + [(1, 1, 3)] + e[pos:]})                       # self-loop
            j = (pos + 2) % len(e)
            systematic.append({'n': bg['n'], 'edges': e[:pos] + [(e[j][1], e[j][0], 4)] + e[pos:]})          # parallel, endpoints swapped
    demo_inputs.systematic = systematic
    return valid, invalid + systematic


def check_C11(res, tier, seed, replay):
    rng = random.Random(seed)
    res.assumptions += ['the demos are rebuilt from /repo/src with g++/mpicxx command lines equivalent to CMakeLists.txt (-DNDEBUG)',
                        'watchdogs: 120 s for the sequential demos, 100 s for mpiexec jobs on graphs that take milliseconds (about 2-3 s per launch on an idle machine); a timeout is re-run once before it is believed',
                        'weights are small integers so that the default 6-digit printing of the weight is exact',
                        'approx-mcb-dimacs is only run with k >= 2 (it rejects k <= 1 by design)']
    wd = vlib.scratch('C11')
    try:
        r = vlib.tlc_ok('MpiProto', 'MC_MpiProto.cfg', extra=['-coverage', '1'])
        if r['violated']:
            raise vlib.HarnessError('MC_MpiProto violated')
        res.add_mc('MpiProto.tla with Gate = "all": when every rank validates the input no rank is left in a collective (the pinned rank-0-only gate is refuted by MC_MpiProto_pinned.cfg)', r)
        exes = build_demos()
        valid, invalid = demo_inputs(rng, tier)
        jobs = []
        fid = 0

        def add(prog, args, k, P, g, nl=True):
            nonlocal fid
            path = os.path.join(wd, 'in%d.dimacs' % fid)
            fid += 1
            with open(path, 'w') as f:
                f.write(demo_file_text(g, nl))
            jobs.append((prog, args + [path], k, P, g))
        algo_flags = {'signed': [], 'fvs': ['--signed=false', '--fvstrees=true'], 'iso': ['--signed=false', '--isotrees=true'],
                      'iso_by_default': ['--signed=false'], 'signed_explicit': ['--signed=true', '--fvstrees=true']}
        combos = []
        for a in algo_flags:
            for par in ('true', 'false'):
                for extra in ([], ['--cores', '2'], ['--cores', '1'], ['--verbose=true'], ['--printcycles=true'], ['--verbose=true', '--cores', '3', '--printcycles=true']):
                    combos.append((a, par, extra))
        for gi, g in enumerate(valid):
            cs = combos if (tier != 'quick' or gi < 2) else rng.sample(combos, 6)
            for (a, par, extra) in cs:
                add('mcb-dimacs', algo_flags[a] + ['--parallel=' + par] + extra, 0, None, g, nl=(gi % 2 == 0))
            for (a, par, extra) in (cs if tier != 'quick' else cs[:6]):
                for k in (2, 3):
                    add('approx-mcb-dimacs', algo_flags[a] + ['--parallel=' + par, '--k', str(k)] + extra, k, None, g)
            add('collection-stats-dimacs', [], 0, None, g)
        for gi, g in enumerate(invalid):
            for (a, par, extra) in (combos[::3] if tier != 'quick' else (combos[::7] if gi < len(invalid) - len(demo_inputs.systematic) else combos[gi % 7::17])):
                add('mcb-dimacs', algo_flags[a] + ['--parallel=' + par] + extra, 0, None, g)
                add('approx-mcb-dimacs', algo_flags[a] + ['--parallel=' + par, '--k', '2'] + extra, 2, None, g)
            add('collection-stats-dimacs', [], 0, None, g)
        mpi_P = (1, 2, 3) if tier == 'quick' else (1, 2, 3, 5, 8)
        for gi, g in enumerate(valid[:3] if tier == 'quick' else valid[:10]):
            for a in algo_flags:
                for P in mpi_P:
                    add('mcb-dimacs-mpi', algo_flags[a], 0, P, g)
        nhand = len(invalid) - len(demo_inputs.systematic)
        last7 = [g for g in demo_inputs.systematic if len(g['edges']) == 7 and g['edges'][-1][2] <= 0]     # bad weight on the last line of the 7-edge file
        for g in (invalid[:3] + last7[:1] if tier == 'quick' else invalid[:nhand] + last7 + demo_inputs.systematic[::5]):
            for P in mpi_P:
                add('mcb-dimacs-mpi', [], 0, P, g)
        events = []

        def go(j):
            prog, args, k, P, g = j
            to = 100 if P else 120
            rc, timedout, so, se, dt = run_demo(exes[prog], args, to, P)
            tries = 0
            # a watchdog expiry or a death by signal (mpiexec reports 128+n) is believed only if it repeats
            while (timedout or rc < 0 or rc >= 128) and tries < 2:
                tries += 1
                rc, timedout, so, se, dt = run_demo(exes[prog], args, to, P)
            return demo_event(prog, ' '.join(args[:-1]), k, P, g, rc, timedout, so, se)
        seqjobs = [j for j in jobs if j[3] is None]
        mpijobs = [j for j in jobs if j[3] is not None]
        with cf.ThreadPoolExecutor(max_workers=vlib.NCPU) as ex:
            events += list(ex.map(go, seqjobs))
        with cf.ThreadPoolExecutor(max_workers=4) as ex:
            events += list(ex.map(go, mpijobs))
        # the MPI demo's own main() on vmpi: every rank's exit status, exact deadlock attribution, P up to 6
        # (the shim implements the collectives and blocking point-to-point calls of Boost.MPI; should a changed demo use a
        #  facility it lacks, this extra stage is skipped with a note and the real mpiexec runs above remain the deciding ones)
        try:
            exe_v = vlib.build('h_mpidemo', [os.path.join(vlib.HARNESS, 'h_mpidemo.cpp')],
                               flags=['-DVERIF_VTBB', '-pthread', '-DDEMO_SRC="%s"' % os.path.join(vlib.REPO, 'src', 'mcb-dimacs-mpi.cpp')],
                               libs=('-lboost_timer', '-lboost_serialization', '-lboost_program_options', '-lboost_thread', '-lboost_system', '-lpthread'), shim=['vtbb', 'vmpi'])
        except vlib.HarnessError as ex:
            exe_v = None
            res.cov['vmpi_demo_stage'] = 'skipped: the demo does not compile against the vmpi shim (%s)' % str(ex)[-400:]
            print('NOTE: C11 vmpi demo stage skipped (the demo source does not compile against the shim); real mpiexec runs decide')
        vjobs = []
        for g in (valid[:4] if tier == 'quick' else valid[:12]):
            for a in algo_flags:
                for P in (2, 4, 6):
                    vjobs.append((algo_flags[a], P, g))
        for g in invalid:
            for P in (1, 2, 3, 4, 6):
                vjobs.append(([], P, g))
        if exe_v is None:
            vjobs = []

        def gov(j):
            flags, P, g = j
            path = os.path.join(wd, 'v%d.dimacs' % abs(hash((tuple(flags), P, json.dumps(g['edges'])))))
            with open(path, 'w') as f:
                f.write(demo_file_text(g))
            outp = path + '.out'
            pr = subprocess.run([exe_v, '--out', outp, '--P', str(P), '--'] + flags + [path], stdout=subprocess.PIPE, stderr=subprocess.PIPE, text=True, errors='replace', timeout=300)
            if pr.returncode != 0 or not os.path.exists(outp):
                raise vlib.HarnessError('h_mpidemo failed: %s %s' % (pr.returncode, pr.stderr[-500:]))
            o = json.loads(open(outp).read())
            ev = demo_event('mcb-dimacs-mpi', ' '.join(flags) + ' [vmpi]', 0, P, g, 0, False, pr.stdout, pr.stderr)
            ev['rank_exits'] = [r['rc'] for r in o['ranks']]
            ev['timedout'] = any('Deadlock' in r['err'] or 'Mismatch' in r['err'] for r in o['ranks'])
            ev['exit'] = 0 if all(r['rc'] == 0 and not r['err'] for r in o['ranks']) else 1
            ev['diag'] = bool(pr.stderr.strip())
            return ev
        with cf.ThreadPoolExecutor(max_workers=8) as ex:
            events += list(ex.map(gov, vjobs))
        trace = os.path.join(wd, 'demo.ndjson')
        with open(trace, 'w') as f:
            for e in events:
                f.write(json.dumps(e) + '\n')
        v = vlib.validate_trace('Trace_Demo', 'Trace_Demo.cfg', trace, start_event=None)
        res.add_validation(v, len(events))
        res.cov['evaluations'] = len(events)
        res.cov['distinct_nontrivial'] = len({(e['prog'], e['opts'], e['P'], json.dumps(e['edges'])) for e in events})
        res.cov['event_counts'] = {'sequential_runs': len(seqjobs), 'mpiexec_runs': len(mpijobs), 'vmpi_demo_runs': len(vjobs), 'invalid_input_runs': sum(1 for j in jobs if j[4] in invalid)}
        res.cov['rule'] = 'run = (program, option combination, input file, process count); valid files incl. disconnected/forest/no trailing newline; invalid files: self-loop, parallel edge, zero weight, negative weight, several at once, and one violation at every position of a 6-edge and a 7-edge file; mcb-dimacs-mpi under real mpiexec'
        res.sample(events[0])
        res.sample(events[-1])
        for rj in v['rejects']:
            call = rj['call']
            facts = {'prog': call.get('prog'), 'opts': call.get('opts'), 'P': call.get('P'), 'clauses': rj['clauses'], 'n': call.get('n'), 'edges': call.get('edges'), 'exit': call.get('exit')}
            res.violation(facts, {'trace_segment': rj['segment'][:1], 'spec': 'Trace_Demo'})
    finally:
        shutil.rmtree(wd, ignore_errors=True)


REGISTRY['C11'] = check_C11
