"""Registry: property id -> check function(res, tier, seed, replay)."""
import p_mcb, p_comp, p_vec, p_approx, p_tbb, p_hist, p_mpi, p_dimacs, p_conc, p_build
REGISTRY = {}
LEVEL = {}
REGISTRY.update(p_mcb.REGISTRY)
REGISTRY.update(p_comp.REGISTRY)
REGISTRY.update(p_vec.REGISTRY)
REGISTRY.update(p_approx.REGISTRY)
REGISTRY.update(p_tbb.REGISTRY)
REGISTRY.update(p_hist.REGISTRY)
REGISTRY.update(p_mpi.REGISTRY)
REGISTRY.update(p_dimacs.REGISTRY)
REGISTRY.update(p_conc.REGISTRY)
REGISTRY.update(p_build.REGISTRY)

RERUN_ON_REPLAY = {'C01', 'C02', 'C09', 'C05', 'C06', 'C12', 'C13', 'C14', 'C15', 'C16'}
