"""Registry: property id -> check function(res, tier, seed, replay)."""
import p_mcb, p_comp
REGISTRY = {}
LEVEL = {}
REGISTRY.update(p_mcb.REGISTRY)
REGISTRY.update(p_comp.REGISTRY)
