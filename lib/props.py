"""Registry: property id -> check function(res, tier, seed, replay)."""
import p_mcb
REGISTRY = {}
LEVEL = {}
REGISTRY.update(p_mcb.REGISTRY)
