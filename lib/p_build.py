"""C19: headers self-contained and usable from several translation units (compiler / nm / linker + Build.tla)."""
import json, os, random, shutil, subprocess, re
import concurrent.futures as cf
import vlib


def headers():
    inc = os.path.join(vlib.REPO, 'include')
    hs = []
    for base, dirs, files in os.walk(os.path.join(inc, 'parmcb')):
        for f in sorted(files):
            if f.endswith('.hpp'):
                hs.append(os.path.relpath(os.path.join(base, f), inc))
    return sorted(hs)


def applicable(h, tbb, mpi):
    if h.startswith('parmcb/mpi/'):
        return tbb and mpi          # the MPI variants are TBB + MPI code by construction
    if '_tbb' in h:
        return tbb
    return True


def check_C19(res, tier, seed, replay):
    res.level = 'other'
    res.assumptions += ['the oracle for "compiles" and "links" is g++/mpicxx/ld with the flags of the CMake build (-std=c++14); TLC contributes the one-definition rule that generalises per-TU symbol tables to every pair',
                        'headers whose purpose requires a back end (files named *_tbb*, everything under mpi/) are only compiled in configurations that provide it']
    wd = vlib.scratch('C19')
    try:
        hs = headers()
        cfgs = [(True, True), (False, False)] if tier == 'quick' else [(True, True), (True, False), (False, False)]
        jobs = []
        for (tbb, mpi) in cfgs:
            cfgname = 'tbb%dmpi%d' % (tbb, mpi)
            cinc = vlib.config_include(tbb, mpi)
            for h in hs:
                if not applicable(h, tbb, mpi):
                    continue
                tu = '%s:%s' % (cfgname, h)
                stem = re.sub(r'[^A-Za-z0-9]', '_', tu)
                jobs.append((tu, h, cfgname, cinc, stem, tbb, mpi))

        def compile_tu(j):
            tu, h, cfgname, cinc, stem, tbb, mpi = j
            srcs = []
            for twin in ('a', 'b'):
                src = os.path.join(wd, stem + twin + '.cpp')
                with open(src, 'w') as f:
                    f.write('#include <%s>\nint verif_tu_%s%s() { return 0; }\n' % (h, stem, twin))
                srcs.append(src)
            cxx = 'mpicxx' if mpi else 'g++'
            obj = os.path.join(wd, stem + 'a.o')
            cmd = [cxx, '-std=c++14', '-O0', '-w', '-I' + os.path.join(vlib.REPO, 'include'), '-I' + cinc, '-c', srcs[0], '-o', obj]
            p = vlib.sh(cmd, timeout=900)
            ok = p.returncode == 0
            strong = []
            err = ''
            if ok:
                q = vlib.sh(['nm', '-g', '--defined-only', obj])
                for ln in q.stdout.splitlines():
                    parts = ln.split()
                    if len(parts) >= 3 and parts[1] in 'TDBRSGC' and not parts[2].startswith('_Z') or (len(parts) >= 3 and parts[1] in 'TDBRSGC'):
                        name = parts[2]
                        if 'verif_tu_' in name:
                            continue
                        strong.append(name)
                # second object (the twin TU) only when needed for a real link
            else:
                err = '\n'.join(l for l in p.stdout.splitlines() if 'error' in l)[:600]
            return {'e': 'Compile', 'tu': tu, 'header': h, 'cfg': cfgname, 'ok': ok, 'strong': sorted(set(strong)), 'err': err}, srcs, obj, j
        with cf.ThreadPoolExecutor(max_workers=vlib.NCPU) as ex:
            results = list(ex.map(compile_tu, jobs))
        events = [r[0] for r in results]
        # real links: every header with itself (two TUs including it) for the full configuration, plus a sample of mixed pairs
        rng = random.Random(seed)
        link_jobs = []
        full = [r for r in results if r[0]['ok'] and r[0]['cfg'] == 'tbb1mpi1']
        for r in full:
            link_jobs.append(([r, r], True))
        names = list(range(len(full)))
        for _ in range(6 if tier == 'quick' else 40):
            if len(names) >= 2:
                a, b = rng.sample(names, 2)
                link_jobs.append(([full[a], full[b]], False))

        def do_link(lj):
            rs, twin = lj
            objs = []
            if twin:
                r = rs[0]
                tu, h, cfgname, cinc, stem, tbb, mpi = r[3]
                objb = os.path.join(wd, stem + 'b.o')
                cxx = 'mpicxx' if mpi else 'g++'
                p = vlib.sh([cxx, '-std=c++14', '-O0', '-w', '-I' + os.path.join(vlib.REPO, 'include'), '-I' + cinc, '-c', r[1][1], '-o', objb], timeout=900)
                if p.returncode != 0:
                    raise vlib.HarnessError('twin TU of %s failed to compile' % tu)
                objs = [r[2], objb]
            else:
                objs = [rs[0][2], rs[1][2]]
            mainc = os.path.join(wd, 'main_%d.cpp' % abs(hash(tuple(objs))))
            with open(mainc, 'w') as f:
                f.write('int main() { return 0; }\n')
            exe = mainc[:-4] + '.out'
            p = vlib.sh(['mpicxx', '-std=c++14', '-w'] + objs + [mainc, '-o', exe, '-ltbb', '-lboost_timer', '-lboost_mpi', '-lboost_serialization', '-lboost_system'], timeout=600)
            ok = p.returncode == 0
            if not ok and 'multiple definition' not in p.stdout:
                raise vlib.HarnessError('link failed for another reason than multiple definitions:\n' + p.stdout[-1500:])
            return {'e': 'Link', 'tus': [r[0]['tu'] for r in rs], 'ok': ok}
        with cf.ThreadPoolExecutor(max_workers=vlib.NCPU) as ex:
            events += list(ex.map(do_link, link_jobs))
        # two public headers in ONE translation unit (full configuration): what does the second one still contribute?
        inc_root = os.path.join(vlib.REPO, 'include') + os.sep
        cinc_full = vlib.config_include(True, True)

        def pp_info(hlist):
            src = os.path.join(wd, 'pp_%d.cpp' % abs(hash(tuple(hlist))))
            with open(src, 'w') as f:
                f.write(''.join('#include <%s>\n' % h for h in hlist))
            p = vlib.sh(['mpicxx', '-std=c++14', '-w', '-E', '-I' + os.path.join(vlib.REPO, 'include'), '-I' + cinc_full, src], timeout=900)
            if p.returncode != 0:
                return None
            entered, own, cur = set(), {}, None
            for ln in p.stdout.splitlines():
                if ln.startswith('# '):
                    m = re.match(r'# \d+ "([^"]*)"', ln)
                    if m:
                        path = m.group(1)
                        cur = path[len(inc_root):] if path.startswith(inc_root) else None
                        if cur:
                            entered.add(cur)
                elif cur and ln.strip():
                    own[cur] = own.get(cur, 0) + 1
            return entered, own
        full_hs = [h for h in hs if applicable(h, True, True) and any(e['header'] == h and e['cfg'] == 'tbb1mpi1' and e['ok'] for e in events if e['e'] == 'Compile')]
        umbrellas = [h for h in full_hs if h.endswith('/parmcb.hpp')]
        if tier == 'quick':
            pairs = [(a, b) for a in umbrellas for b in full_hs if a != b] + [(a, b) for b in umbrellas for a in full_hs if a != b and a not in umbrellas]
        else:
            pairs = [(a, b) for a in full_hs for b in full_hs if a != b]
        with cf.ThreadPoolExecutor(max_workers=vlib.NCPU) as ex:
            alone = dict(zip(full_hs, ex.map(lambda h: pp_info([h]), full_hs)))
            both = list(ex.map(lambda ab: pp_info(list(ab)), pairs))
        npair = 0
        for (a, b), info in zip(pairs, both):
            if alone.get(b) is None or info is None:
                continue            # (a header that does not preprocess alone is reported by its Compile event)
            ent_b, own_b = alone[b]
            ent_ab, own_ab = info
            events.append({'e': 'Pair', 'cfg': 'tbb1mpi1', 'first': a, 'second': b, 'missing': sorted(ent_b - ent_ab),
                           'own_alone': own_b.get(b, 0), 'own_after': own_ab.get(b, 0)})
            npair += 1
        # templates are only checked when instantiated: per configuration, two translation units include the umbrella header and
        # call every entry point the configuration offers on a small graph; the program must compile, link and run
        def use_program(cfg_):
            tbb, mpi = cfg_
            cfgname = 'tbb%dmpi%d' % (tbb, mpi)
            cinc = vlib.config_include(tbb, mpi)
            body = '''#include <parmcb/parmcb.hpp>
#include <boost/graph/adjacency_list.hpp>
#include <list>
typedef boost::adjacency_list<boost::vecS, boost::vecS, boost::undirectedS, boost::no_property, boost::property<boost::edge_weight_t, double> > G;
double use_NAME() {
    G g(4); auto w = boost::get(boost::edge_weight, g);
    int es[5][2] = {{0,1},{1,2},{2,3},{3,0},{0,2}}; double ws[5] = {1, 2, 3, 4, 2.5};
    for (int i = 0; i < 5; i++) w[boost::add_edge(es[i][0], es[i][1], g).first] = ws[i];
    typedef boost::graph_traits<G>::edge_descriptor E;
    std::list<std::list<E>> c; double t = 0;
    t += parmcb::mcb_sva_signed(g, w, std::back_inserter(c));
    t += parmcb::mcb_sva_fvs_trees(g, w, std::back_inserter(c));
    t += parmcb::mcb_sva_iso_trees(g, w, std::back_inserter(c));
    t += parmcb::approx_mcb_sva_signed(g, w, 2, std::back_inserter(c));
    t += parmcb::approx_mcb_sva_fvs_trees(g, w, 2, std::back_inserter(c));
    t += parmcb::approx_mcb_sva_iso_trees(g, w, 2, std::back_inserter(c));
#ifdef PARMCB_HAVE_TBB
    t += parmcb::mcb_sva_signed_tbb(g, w, std::back_inserter(c));
    t += parmcb::mcb_sva_fvs_trees_tbb(g, w, std::back_inserter(c));
    t += parmcb::mcb_sva_iso_trees_tbb(g, w, std::back_inserter(c));
    t += parmcb::approx_mcb_sva_signed_tbb(g, w, 2, std::back_inserter(c));
    t += parmcb::approx_mcb_sva_fvs_trees_tbb(g, w, 2, std::back_inserter(c));
    t += parmcb::approx_mcb_sva_iso_trees_tbb(g, w, 2, std::back_inserter(c));
#endif
    return t;
}
'''
            objs, compiled = [], True
            for nm in ('a', 'b'):
                src = os.path.join(wd, 'use_%s_%s.cpp' % (cfgname, nm))
                with open(src, 'w') as f:
                    f.write(body.replace('use_NAME', 'use_' + nm))
                obj = src[:-4] + '.o'
                pc = vlib.sh(['g++', '-std=c++14', '-O0', '-w', '-I' + os.path.join(vlib.REPO, 'include'), '-I' + cinc, '-c', src, '-o', obj], timeout=900)
                compiled = compiled and pc.returncode == 0
                objs.append(obj)
            linked = ran = False
            err = ''
            if compiled:
                mainc = os.path.join(wd, 'use_%s_main.cpp' % cfgname)
                with open(mainc, 'w') as f:
                    f.write('double use_a(); double use_b();\nint main() { double a = use_a(), b = use_b(); return (a == b && a > 0) ? 0 : 1; }\n')
                exe = mainc[:-4] + '.out'
                pl = vlib.sh(['g++', '-std=c++14', '-w'] + objs + [mainc, '-o', exe] + (['-ltbb'] if tbb else []) + ['-lboost_timer'], timeout=600)
                linked = pl.returncode == 0
                if linked:
                    ran = vlib.sh([exe], timeout=120).returncode == 0
                else:
                    err = '\n'.join(l for l in pl.stdout.splitlines() if 'error' in l or 'multiple definition' in l)[:400]
            else:
                err = '\n'.join(l for l in pc.stdout.splitlines() if 'error' in l)[:400]
            return {'e': 'Use', 'cfg': cfgname, 'compiled': compiled, 'linked': linked, 'ran': ran, 'err': err}
        with cf.ThreadPoolExecutor(max_workers=len(cfgs)) as ex:
            events += list(ex.map(use_program, cfgs))
        for (tbb, mpi) in cfgs:
            events.append({'e': 'AllPairs', 'cfg': 'tbb%dmpi%d' % (tbb, mpi)})
        trace = os.path.join(wd, 'build.ndjson')
        with open(trace, 'w') as f:
            for e in events:
                f.write(json.dumps(e) + '\n')
        v = vlib.validate_trace('Trace_Build', 'Trace_Build.cfg', trace, nchunks=1, start_event=None)
        res.add_validation(v, len(events))
        ncomp = sum(1 for e in events if e['e'] == 'Compile')
        res.cov['evaluations'] = len(events)
        res.cov['distinct_nontrivial'] = ncomp
        res.cov['explanation'] = ('%d translation units (one per public header and build configuration, the header first and alone) compiled with the real compiler; strong external symbols extracted with nm; '
                                  '%d real link runs (every header of the full configuration included from two TUs, plus sampled mixed pairs); TLC validates the links against the one-definition rule of Build.tla '
                                  'and decides every pair of TUs of each configuration from the symbol tables; %d ordered pairs of public headers preprocessed in ONE translation unit (the second header must enter the same files and keep its own text)' % (ncomp, len(link_jobs), npair))
        res.cov['rule'] = 'TU = (public header under include/parmcb, configuration of PARMCB_HAVE_TBB/MPI); all are non-trivial'
        res.cov['event_counts'] = {'Compile': ncomp, 'Link': len(link_jobs), 'AllPairs': len(cfgs), 'Pair': npair, 'Use': len(cfgs)}
        res.sample(events[0])
        for rj in v['rejects']:
            ev = json.loads(rj['segment'][0])
            facts = {'event': ev.get('e'), 'clauses': rj['clauses'], 'tu': ev.get('tu') or ev.get('tus') or ([ev.get('first'), ev.get('second')] if ev.get('e') == 'Pair' else ev.get('cfg')), 'err': ev.get('err', '')[:300]}
            if ev.get('e') == 'AllPairs':
                facts['strong_symbols'] = {e['tu']: e['strong'] for e in events if e['e'] == 'Compile' and e['cfg'] == ev['cfg'] and e['strong']}
            res.violation(facts, {'trace_segment': rj['segment'][:1], 'spec': 'Trace_Build'})
    finally:
        shutil.rmtree(wd, ignore_errors=True)


REGISTRY = {'C19': check_C19}
