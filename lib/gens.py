"""Input generators for the replay/recording drivers.  The exhaustive spaces come from TLC
(Gen_Graphs.tla); everything random derives from VERIF_SEED."""
import json, os, random, itertools
import vlib


def tlc_graphs(workdir, N, WS):
    """All simple labelled graphs with <= N vertices and weights from WS, enumerated by TLC."""
    out = os.path.join(workdir, 'gen_graphs_%d.ndjson' % N)
    cfg = os.path.join(workdir, 'Gen_Graphs_%d.cfg' % N)
    with open(cfg, 'w') as f:
        f.write('CONSTANTS N = %d WS = {%s}\nINIT Init\nNEXT Next\nCHECK_DEADLOCK FALSE\n' % (N, ','.join(map(str, WS))))
    r = vlib.tlc_ok('Gen_Graphs', cfg, workers=1, env={'GEN_OUT': out}, tag='gen')
    gs = []
    with open(out) as f:
        for ln in f:
            ln = ln.strip()
            if ln:
                o = json.loads(ln)
                gs.append({'n': o['n'], 'edges': [tuple(e) for e in o['edges']]})
    return gs, r


def rand_graph(rng, n, m, wgen):
    pairs = [(u, v) for u in range(n) for v in range(u + 1, n)]
    rng.shuffle(pairs)
    es = []
    for (u, v) in pairs[:m]:
        if rng.random() < 0.5:
            u, v = v, u
        es.append((u, v, wgen()))
    return {'n': n, 'edges': es}


def random_graphs(rng, count, nmin, nmax, mmax, wsets):
    r = []
    for _ in range(count):
        n = rng.randint(nmin, nmax)
        maxm = n * (n - 1) // 2
        style = rng.random()
        if style < 0.3:
            m = rng.randint(0, min(maxm, mmax))
        elif style < 0.7:
            m = rng.randint(min(maxm, max(0, n - 1)), min(maxm, mmax))
        else:
            m = min(maxm, mmax)
        ws = rng.choice(wsets)
        r.append(rand_graph(rng, n, m, lambda: rng.choice(ws)))
    return r


# ---- structured, tie-heavy families ------------------------------------------------------------
def grid(a, b, w=1):
    idx = lambda i, j: i * b + j
    es = []
    for i in range(a):
        for j in range(b):
            if j + 1 < b: es.append((idx(i, j), idx(i, j + 1), w))
            if i + 1 < a: es.append((idx(i, j), idx(i + 1, j), w))
    return {'n': a * b, 'edges': es}


def hypercube(d, w=1):
    es = [(u, u ^ (1 << k), w) for u in range(1 << d) for k in range(d) if u < u ^ (1 << k)]
    return {'n': 1 << d, 'edges': es}


def complete(n, w=1):
    return {'n': n, 'edges': [(u, v, w) for u in range(n) for v in range(u + 1, n)]}


def bipartite(a, b, w=1):
    return {'n': a + b, 'edges': [(u, a + v, w) for u in range(a) for v in range(b)]}


def wheel(n, w=1):
    es = [(0, i, w) for i in range(1, n)] + [(i, i % (n - 1) + 1, w) for i in range(1, n)]
    return {'n': n, 'edges': es}


def petersen(w=1):
    es = [(i, (i + 1) % 5, w) for i in range(5)] + [(i, i + 5, w) for i in range(5)] + [(5 + i, 5 + (i + 2) % 5, w) for i in range(5)]
    return {'n': 10, 'edges': es}


def ladder(n, w=1):
    return grid(2, n, w)


def cycle(n, w=1):
    return {'n': n, 'edges': [(i, (i + 1) % n, w) for i in range(n)]}


def union(g1, g2):
    n1 = g1['n']
    return {'n': n1 + g2['n'], 'edges': list(g1['edges']) + [(u + n1, v + n1, w) for (u, v, w) in g2['edges']]}


def with_pendant(rng, g, k):
    n = g['n']
    es = list(g['edges'])
    for _ in range(k):
        p = rng.randrange(n) if n else 0
        es.append((p, n, rng.randint(1, 3)))
        n += 1
    return {'n': n, 'edges': es}


def reweight(rng, g, ws):
    return {'n': g['n'], 'edges': [(u, v, rng.choice(ws)) for (u, v, _) in g['edges']]}


def permuted(rng, g):
    """same abstract graph: vertices renumbered, edges re-ordered and flipped"""
    p = list(range(g['n']))
    rng.shuffle(p)
    es = [(p[u], p[v], w) if rng.random() < 0.5 else (p[v], p[u], w) for (u, v, w) in g['edges']]
    rng.shuffle(es)
    return {'n': g['n'], 'edges': es}


def reversed_order(g):
    return {'n': g['n'], 'edges': [(v, u, w) for (u, v, w) in reversed(g['edges'])]}


def families(rng, big=False):
    fs = [grid(2, 3), grid(3, 3), hypercube(3), complete(4), complete(5), complete(6), bipartite(2, 3), bipartite(3, 3),
          wheel(5), wheel(6), petersen(), ladder(4), cycle(3), cycle(6), union(cycle(3), cycle(4)),
          union(complete(4), grid(2, 2)), with_pendant(rng, complete(4), 3), with_pendant(rng, grid(2, 3), 2)]
    if big:
        fs += [grid(3, 4), grid(4, 4), hypercube(4), complete(7), complete(8), bipartite(3, 4), bipartite(4, 4),
               wheel(8), ladder(6), union(petersen(), complete(5)), with_pendant(rng, petersen(), 4)]
    out = []
    for g in fs:
        out.append(g)
        out.append(reweight(rng, g, [1, 2]))
        out.append(reweight(rng, g, [1, 2, 3, 5]))
    return out


def csd(g):
    """cycle-space dimension (for non-triviality counters only; never a verdict)"""
    n = g['n']
    p = list(range(n))

    def f(x):
        while p[x] != x:
            p[x] = p[p[x]]
            x = p[x]
        return x
    c = n
    for (u, v, _) in g['edges']:
        a, b = f(u), f(v)
        if a != b:
            p[a] = b
            c -= 1
    return len(g['edges']) - n + c


def petals(p, heavy=1000, chord=2, plen=1):
    """Adversarial family for the (2k-1) bound: hub c, sink t joined by one very heavy edge, p petals
    c - s_i - (plen inner vertices) - t of unit edges, each with a light chord s_i - t.  Any closing path that
    detours over the heavy edge costs `heavy` once per chord, so a wrong (non-shortest) choice breaks the bound."""
    es = [(0, 1, heavy)]
    n = 2
    for _ in range(p):
        s_i = n; n += 1
        es.append((0, s_i, 1))
        prev = s_i
        for _ in range(plen):
            es.append((prev, n, 1)); prev = n; n += 1
        es.append((prev, 1, 1))
        es.append((s_i, 1, chord))
    return {'n': n, 'edges': es}


def heavy_spiked(rng, g, count, heavy):
    es = list(g['edges'])
    for i in rng.sample(range(len(es)), min(count, len(es))):
        es[i] = (es[i][0], es[i][1], heavy)
    return {'n': g['n'], 'edges': es}


def with_tree_components(rng, g, t):
    """g plus t separate tree components (single edges, short paths, small stars): many components, m may drop below n"""
    out = g
    for _ in range(t):
        kind = rng.random()
        if kind < 0.5:
            comp = {'n': 2, 'edges': [(0, 1, rng.randint(1, 3))]}
        elif kind < 0.8:
            k = rng.randint(3, 4)
            comp = {'n': k, 'edges': [(i, i + 1, rng.randint(1, 3)) for i in range(k - 1)]}
        else:
            k = rng.randint(3, 5)
            comp = {'n': k, 'edges': [(0, i, rng.randint(1, 3)) for i in range(1, k)]}
        out = union(out, comp)
    return out


def theta(n, heavy, light):
    """two hubs 0,1 joined by one heavy edge (inserted first, lowest endpoints) and n light two-edge paths between them"""
    es = [(0, 1, heavy)]
    for i in range(n):
        es.append((0, 2 + i, light)); es.append((2 + i, 1, light))
    return {'n': n + 2, 'edges': es}
