"""C04: MPI entry points for every rank count and per-rank memory layout (vmpi + vtbb shims, layout arena)."""
import json, os, random, shutil
import vlib, gens, p_mcb

CL = p_mcb.CLAUSES['C01'] | p_mcb.CLAUSES['C02'] | {'rank-did-not-return', 'non-root-rank-emitted'}


def harness():
    return vlib.build('h_mpi', [os.path.join(vlib.HARNESS, 'h_mpi.cpp')], flags=['-DVERIF_VTBB', '-pthread'],
                      libs=('-lboost_timer', '-lboost_serialization', '-lpthread'), shim=['vtbb', 'vmpi'])


def check_C04(res, tier, seed, replay):
    rng = random.Random(seed)
    res.assumptions += ['vmpi: P rank threads, collectives complete when all ranks entered the same collective; payloads pass through Boost.Serialization; reduce uses harness-chosen bracketing',
                        'per-rank heap layout is modelled as the address order of the edge property nodes (the only layout the library observes: std::set<edge_descriptor> order), placed by the arena and verified after construction',
                        'real Open MPI runs (thorough tier / C11) keep the shim honest']
    wd = vlib.scratch('C04')
    try:
        for mod, cfg, what in (('MpiSlices', 'MC_MpiSlices.cfg', 'ceil-stride slicing partitions 0..total-1 for every P <= 6 and total <= 9 (incl. P > total, total = 0)'),
                               ('MpiHidden', 'MC_MpiHidden.cfg', 'hidden-edge search split over ranks examines every odd cycle class when all ranks use ONE order of the signed edges (K=5, P=3, all 120 orders)'),
                               ('MpiProto', 'MC_MpiProto.cfg', 'collective protocol (scatter; per phase bcast [reduce]) with the single-edge branch: every rank returns, no mismatch, P=3, <=3 phases, both variants')):
            r = vlib.tlc_ok(mod, cfg, extra=['-coverage', '1'], timeout=3000)
            if r['violated']:
                raise vlib.HarnessError('%s/%s violated\n%s' % (mod, cfg, r['out'][-3000:]))
            res.add_mc(mod + '.tla: ' + what, r)
        try:
            nob, npr = vlib.tlaps('ReduceAlgebra')
        except Exception as e:      # the proof layer is an extra: a prover timeout must not break the check
            nob, npr = 0, 0
            res.cov['tlaps_error'] = str(e)[-300:]
        res.cov['tlaps'] = {'module': 'ReduceAlgebra.tla', 'obligations': nob, 'discharged': npr, 'checker_cmd': 'tlapm ReduceAlgebra.tla', 'what': 'MPI reduction operator: associativity, commutativity, neutrality (unbounded)'}
        exe = harness()
        inputs = []
        gs, _ = gens.tlc_graphs(wd, 4, [1, 2])
        sub = [g for g in gs if gens.csd(g) >= 1]
        inputs += [(g, 1) for g in (sub if tier != 'quick' else sub[::5])]
        res.cov['exhaustive_space'] = 'simple labelled graphs with <= 4 vertices, weights {1,2}, containing a cycle: %d used of %d' % (len(sub if tier != 'quick' else sub[::5]), len(sub))
        nrand = 120 if tier == 'quick' else 1500
        for g in gens.random_graphs(rng, nrand, 4, 9, 16, [[1], [1, 2], [1, 2, 3], list(range(1, 20)), list(range(1, 100))]):
            inputs.append((g, 1))
        for n in (5, 6):
            inputs.append((gens.reweight(rng, gens.complete(n), list(range(1, 40))), 1))
        for g in (gens.petersen(), gens.grid(3, 3), gens.hypercube(3), gens.wheel(6)):
            inputs.append((gens.reweight(rng, g, [1, 2, 3]), 1))
        if not replay:
            message_binding(res, exe, tier, seed, wd, gs)
        lines = [vlib.graph_line(i, g['n'], g['edges'], den) for i, (g, den) in enumerate(inputs)]
        Ps = '1,2,3,4,7' if tier == 'quick' else '1,2,3,4,5,6,8,13'
        trace = vlib.parallel_record(exe, lines, wd, 'mpi', extra=['--P', Ps, '--layouts', 'identity,reversed_odd,random', '--seeds', '2' if tier == 'quick' else '5', '--seed', str(seed)], timeout=3000)
        # the hidden-edge branch of the signed variant needs >= 3 signed edges spread over several ranks' slices and a unique
        # lightest odd cycle through them: denser graphs with wide weight ranges, signed variant only, few configurations
        extra_in = []
        for g in gens.random_graphs(rng, 500 if tier == 'quick' else 5000, 7, 10, 20, [list(range(1, 1000)), list(range(1, 100)), list(range(1, 30))]):
            extra_in.append((g, 1))
        xl = [vlib.graph_line(100000 + i, g['n'], g['edges'], den) for i, (g, den) in enumerate(extra_in)]
        trace_x = vlib.parallel_record(exe, xl, wd, 'mpix', extra=['--P', '2,3,5', '--layouts', 'identity', '--algos', 'signed_mpi', '--seed', str(seed)], timeout=3000)
        with open(trace, 'a') as f:
            f.write(open(trace_x).read())
        inputs += extra_in
        # EVERY pair of per-rank address orders (P = 2) on the smallest graphs that reach the hidden-edge branch (5 edges):
        # quick: rank 0 fixed x 120 orders on rank 1; thorough: all 14 400 pairs
        small5 = [g for g in gs if len(g['edges']) == 5 and gens.csd(g) >= 2]
        small5 = small5[::8] if tier == 'quick' else small5[::3]
        sl = [vlib.graph_line(200000 + i, g['n'], g['edges'], 1) for i, g in enumerate(small5)]
        trace_p = vlib.parallel_record(exe, sl, wd, 'mpip', extra=['--P', '2', '--layouts', 'allsecond' if tier == 'quick' else 'allpairs', '--algos', 'signed_mpi'], timeout=3000)
        with open(trace, 'a') as f:
            f.write(open(trace_p).read())
        res.cov['exhaustive_layout_pairs'] = {'graphs': len(small5), 'runs': vlib.count_events(trace_p).get('Call', 0),
                                              'what': 'P = 2, every address order of the 5 edge nodes on rank 1' + (' x every order on rank 0' if tier != 'quick' else ' (rank 0 in insertion order)')}
        ev = vlib.count_events(trace)
        if ev.get('LayoutError', 0):
            raise vlib.HarnessError('%d LayoutError events: the arena did not realise the requested edge order' % ev['LayoutError'])
        res.cov['event_counts'] = ev
        v = vlib.validate_trace('Trace_Mpi', 'Trace_Mpi.cfg', trace)
        n = ev.get('Call', 0)
        res.add_validation(v, n)
        res.cov['evaluations'] = n
        multi = 0
        distinct = set()
        with open(trace) as f:
            for ln in f:
                if '"e":"Call"' in ln:
                    o = json.loads(ln)
                    if o['P'] >= 2:
                        multi += 1
                    distinct.add((o['algo'], o['P'], o['meta']['layout'], json.dumps(o['edges'])))
        res.cov['runs_with_2_or_more_ranks'] = multi
        res.cov['distinct_nontrivial'] = len(distinct)
        res.cov['rule'] = 'run = (graph, MPI entry point, P, layout mode [identity on all ranks | odd ranks reversed | independent random permutation per rank], reduce bracketing policy); distinct = distinct (entry point, P, layout mode, graph)'
        with open(trace) as f:
            res.sample([json.loads(next(f)) for _ in range(3)])
        for rj in v['rejects']:
            mine = sorted(set(rj['clauses']) & CL)
            if not mine:
                continue
            call = rj['call']
            facts = {'algo': call.get('algo'), 'P': call.get('P'), 'layout': (call.get('meta') or {}).get('layout'), 'clauses': mine, 'n': call.get('n'),
                     'edges': call.get('edges'), 'meta': call.get('meta')}
            res.violation(facts, {'trace_segment': rj['segment'], 'spec': 'Trace_Mpi'})
    finally:
        shutil.rmtree(wd, ignore_errors=True)


def message_binding(res, exe, tier, seed, wd, gs):
    """Diagnostic layer (never a verdict): the messages that cross the collectives of every run on small graphs - the support
    vector broadcast in each phase, every rank's contribution to each reduction, the scattered candidate chunks - must be a
    behaviour of MC_Sva / MpiProto (Trace_MpiMsg.tla replays them through the model's own PhaseC action)."""
    rng = random.Random(seed + 23)
    sub = [g for g in gs if gens.csd(g) >= 1]
    sub = sub[::(9 if tier == 'quick' else 2)]
    sub += [g for g in gens.random_graphs(rng, 50 if tier == 'quick' else 400, 4, 7, 11, [[1], [1, 2], [1, 2, 3], list(range(1, 20))]) if gens.csd(g) >= 1]
    sub += [gens.reweight(rng, gens.complete(5), ws) for ws in ([1], [1, 2], list(range(1, 30)))]
    lines = [vlib.graph_line(300000 + i, g['n'], g['edges'], 1) for i, g in enumerate(sub)]
    trace = vlib.parallel_record(exe, lines, wd, 'mpimsg', extra=['--msg', '--P', '1,2,3,5' if tier == 'quick' else '1,2,3,4,5,8', '--layouts', 'identity,random', '--seeds', '1' if tier == 'quick' else '3', '--seed', str(seed)], timeout=3000)
    ev = vlib.count_events(trace)
    if ev.get('LayoutError', 0):
        raise vlib.HarnessError('%d LayoutError events in the message-level runs' % ev['LayoutError'])
    v = vlib.validate_trace('Trace_MpiMsg', 'Trace_MpiMsg.cfg', trace, start_event='Run')
    res.cov['states'] += v['states']
    res.cov['transitions'] += v['transitions']
    res.cov['traces_validated_against_impl'] += ev.get('Run', 0)
    anomalies = [{'algo': r['call'].get('algo'), 'P': r['call'].get('P'), 'n': r['call'].get('n'), 'edges': r['call'].get('edges'), 'clauses': r['clauses'],
                  'at_event': r['line'] - r['call_line']} for r in v['rejects']]
    res.cov['message_binding'] = {'spec': 'Trace_MpiMsg.tla (MC_Sva PhaseC + MpiProto program, payloads logged by the vmpi shim)',
                                  'runs': ev.get('Run', 0), 'collectives': ev.get('Coll', 0), 'message_anomalies': len(anomalies),
                                  'note': 'diagnostic only: stronger than C04, never a VIOLATION by itself', 'anomaly_samples': anomalies[:3]}
    for a in anomalies[:5]:
        print('NOTE: C04 message-level anomaly (diagnostic, not a verdict): %s P=%s %s at collective %s' % (a['algo'], a['P'], ','.join(a['clauses']), a['at_event']))


REGISTRY = {'C04': check_C04}
