"""C03: the TBB entry points under every schedule (vtbb shim driven by TLC-generated schedules) and under real oneTBB."""
import json, os, random, re, shutil
import vlib, gens, p_mcb, p_approx
from p_comp import canon


def harness_vtbb():
    return vlib.build('h_tbb', [os.path.join(vlib.HARNESS, 'h_tbb.cpp')], flags=['-DVERIF_VTBB'], libs=('-lboost_timer',), shim='vtbb')


def tree_tokens(t, rng):
    if t['k'] == 'leaf':
        return 'L'
    rf = 1 if (t['stolen'] and rng.random() < 0.5) else 0
    return 'N %d %d %d %s %s' % (t['mid'], 1 if t['stolen'] else 0, rf, tree_tokens(t['l'], rng), tree_tokens(t['r'], rng))


def gen_schedules(wd, NR, NF, rng):
    outr, outf = os.path.join(wd, 'sched_r.ndjson'), os.path.join(wd, 'sched_f.ndjson')
    cfg = os.path.join(wd, 'Gen_Sched.cfg')
    with open(cfg, 'w') as f:
        f.write('CONSTANTS N = 1 VMAX = 1 NR = %d NF = %d\nINIT GInit\nNEXT GNext\nCHECK_DEADLOCK FALSE\n' % (NR, NF))
    vlib.tlc_ok('Gen_Sched', cfg, workers=1, env={'GEN_OUT_R': outr, 'GEN_OUT_F': outf}, tag='gen')
    lines = []
    nr = nf = 0
    for ln in open(outr):
        if ln.strip():
            o = json.loads(ln)
            if o['t']['k'] == 'leaf':
                continue
            lines.append('R %d %s' % (o['n'], tree_tokens(o['t'], rng)))
            nr += 1
    for ln in open(outf):
        if ln.strip():
            o = json.loads(ln)
            lines.append('F %d %d %s %s' % (o['n'], len(o['bounds']), ' '.join(map(str, o['bounds'])), ' '.join(map(str, o['perm']))))
            nf += 1
    path = os.path.join(wd, 'sched.txt')
    with open(path, 'w') as f:
        f.write('\n'.join(lines) + '\n')
    return path, nr, nf


CL = p_mcb.CLAUSES['C01'] | p_mcb.CLAUSES['C02'] | p_approx.C05 | p_approx.C06 | {'threw-on-valid-input', 'conflicting-access-between-tasks'}


def strip_stats(trace):
    """separate the harness bookkeeping (Stats) and the task footprints (ForRegion) from the behaviour trace"""
    stats = []
    keep = []
    fps = []
    regs = []
    with open(trace) as f:
        for ln in f:
            if '"e":"Stats"' in ln:
                stats.append(json.loads(ln))
            elif '"e":"ForRegion"' in ln:
                fps.append(ln)
            elif '"e":"Region"' in ln:
                regs.append(ln)
            else:
                keep.append(ln)
    with open(trace, 'w') as f:
        f.writelines(keep)
    with open(trace + '.fp', 'w') as f:
        f.writelines(fps)
    with open(trace + '.regions', 'w') as f:
        f.writelines(regs)
    return stats


def race_stage(res, tier, seed, wd):
    """Data-race clause on ALL shared memory: the six TBB entry points compiled with clang++ -fsanitize=thread against the
    threaded shim shim/ttbb (every region really runs its sub-ranges on separate threads, nothing but the library's own
    synchronisation orders them).  Each ThreadSanitizer report becomes a Race event decided by Trace_ParFor!RaceViol."""
    import glob
    rng = random.Random(seed + 31)
    exe = vlib.build('h_race', [os.path.join(vlib.HARNESS, 'h_race.cpp')], flags=['-g', '-fsanitize=thread'], libs=('-lboost_timer', '-lpthread'), shim='ttbb', cxx='clang++')
    gs = [gens.reweight(rng, gens.complete(6), list(range(1, 30))), gens.reweight(rng, gens.complete(8), list(range(1, 99))), gens.reweight(rng, gens.grid(3, 3), [1, 2, 3]),
          gens.reweight(rng, gens.petersen(), [1, 2]), gens.reweight(rng, gens.wheel(7), [1, 2, 3]), gens.union(gens.cycle(4, 2), gens.cycle(3, 7)),
          gens.reweight(rng, gens.complete(10), list(range(1, 500)))]
    gs += gens.random_graphs(rng, 10 if tier == 'quick' else 150, 8, 14, 30, [[1, 2, 3], list(range(1, 50))])
    inp = os.path.join(wd, 'race.in')
    with open(inp, 'w') as f:
        f.write('\n'.join(vlib.graph_line(i, g['n'], g['edges'], 1) for i, g in enumerate(gs)) + '\n')
    out = os.path.join(wd, 'race.ndjson')
    logp = os.path.join(wd, 'tsan')
    rc, o = vlib.run_harness(exe, ['--in', inp, '--out', out], timeout=3000, env={'TSAN_OPTIONS': 'halt_on_error=0 exitcode=0 report_thread_leaks=0 log_path=' + logp})
    ran = vlib.count_events(out).get('Ran', 0) if os.path.exists(out) else 0
    if rc != 0 or ran != len(gs) * 6:
        raise vlib.HarnessError('h_race failed rc=%s, %d of %d calls ran: %s' % (rc, ran, len(gs) * 6, o[-1500:]))
    events, seen = [], set()
    for fn in glob.glob(logp + '.*'):
        txt = open(fn, errors='replace').read()
        for rep in txt.split('WARNING: ThreadSanitizer: data race')[1:]:
            acc = []
            for m in re.finditer(r'^\s*(Previous )?(atomic )?(write|read) of size \d+ at \S+ by (thread T\d+|main thread)[^\n]*\n((?:\s+#\d+ [^\n]*\n)+)', rep, re.M | re.I):
                frames = re.findall(r'(include/parmcb/[\w/.]+:\d+)', m.group(5))
                acc.append({'thread': m.group(4), 'kind': m.group(3).lower(), 'where': frames[0] if frames else 'outside parmcb'})
            if len(acc) >= 2:
                key = tuple(sorted((a['where'], a['kind']) for a in acc[:2]))
                if key not in seen:
                    seen.add(key)
                    events.append({'e': 'Race', 'a': acc[0], 'b': acc[1]})
    res.cov['tsan_stage'] = {'entry_point_calls_under_ThreadSanitizer': ran, 'graphs': len(gs), 'distinct_reports': len(events),
                             'what': 'threaded shim (4 threads per region, lock-free concurrent_vector), clang++ -fsanitize=thread'}
    if events:
        tr = os.path.join(wd, 'race_events.ndjson')
        with open(tr, 'w') as f:
            for e in events:
                f.write(json.dumps(e) + '\n')
        v = vlib.validate_trace('Trace_ParFor', 'Trace_ParFor.cfg', tr, start_event=None, nchunks=1)
        res.add_validation(v, len(events))
        for rj in v['rejects']:
            ev0 = json.loads(rj['segment'][0])
            res.violation({'clauses': rj['clauses'], 'stage': 'ThreadSanitizer on the threaded shim', 'access_1': ev0['a'], 'access_2': ev0['b']}, {'trace_segment': rj['segment'][:1], 'spec': 'Trace_ParFor'})


def judge(res, v, spec):
    for rj in v['rejects']:
        mine = sorted(set(rj['clauses']) & CL)
        if not mine:
            continue
        call = rj['call']
        facts = {'algo': call.get('algo'), 'wt': call.get('wt'), 'k': call.get('k'), 'clauses': mine, 'n': call.get('n'), 'edges': call.get('edges'),
                 'den': call.get('den'), 'schedule': (call.get('meta') or {}).get('sched')}
        res.violation(facts, {'trace_segment': rj['segment'], 'spec': spec})


def check_C03(res, tier, seed, replay):
    rng = random.Random(seed)
    res.assumptions += ['vtbb executes each task (leaf body, join) atomically; it reproduces oneTBB\'s reduce semantics (non-stolen right half continues the same body, stolen half starts from the identity and is joined left-to-right) as specified in ParRegion.tla',
                        'data-race freedom: (a) conflicts that change results show up as schedule dependence; (b) vtbb records, for every task of every region, which elements of live tbb::concurrent_vectors it touched and which it changed (snapshot diff), and TLC checks that no element written by one task is touched by another (ParFor.tla); (c) ALL shared memory: the entry points are rebuilt with clang++ -fsanitize=thread against the threaded shim shim/ttbb (regions really run on 4 threads, lock-free concurrent_vector so that no accidental happens-before edge hides a race) and every ThreadSanitizer report is a Race event (Trace_ParFor!RaceViol); ThreadSanitizer is happens-before based, so a conflict is reported whenever the two accesses are executed by different tasks of one region in the recorded runs, whatever the timing']
    wd = vlib.scratch('C03')
    try:
        r = vlib.tlc_ok('ParRegion', 'MC_ParRegion_q.cfg' if tier == 'quick' else 'MC_ParRegion_t.cfg', extra=['-coverage', '1'], timeout=3000)
        if r['violated']:
            raise vlib.HarnessError('MC_ParRegion violated\n' + r['out'][-3000:])
        res.add_mc('ParRegion.tla: parallel_reduce with cycle_min / pruning body returns a global minimum under every schedule tree and every interleaving of runnable tasks; small-step machine = recursive Eval', r)
        try:
            nob, npr = vlib.tlaps('ReduceAlgebra')
        except Exception as e:      # the proof layer is an extra: a prover timeout must not break the check
            nob, npr = 0, 0
            res.cov['tlaps_error'] = str(e)[-300:]
        res.cov['tlaps'] = {'module': 'ReduceAlgebra.tla', 'obligations': nob, 'discharged': npr, 'checker_cmd': 'tlapm ReduceAlgebra.tla', 'what': 'join function cycle_min: neutral identity, associativity, minimum, left bias (unbounded)'}
        exe = harness_vtbb()
        NR, NF = (5, 4) if tier == 'quick' else (6, 5)
        sched, nr, nf = gen_schedules(wd, NR, NF, rng)
        res.cov['schedules'] = 'TLC-generated: %d parallel_reduce schedule trees (n<=%d), %d parallel_for (partition, order) schedules (n<=%d)' % (nr, NR, nf, NF)
        # inputs: small dense graphs (all three search branches incl. |S| >= n), tie-heavy
        inputs = []
        N = 4
        gs, _ = gens.tlc_graphs(wd, N, [1, 2])
        sub = [g for g in gs if gens.csd(g) >= 2]
        inputs += [(g, 1) for g in (sub if tier != 'quick' else sub[::6])]
        for n in (5, 6):
            for ws in ([1], [1, 2], list(range(1, 30))):
                inputs.append((gens.reweight(rng, gens.complete(n), ws), 1))
        fam = [gens.petersen(), gens.hypercube(3), gens.grid(3, 3), gens.wheel(6), gens.bipartite(3, 3)]
        for g in fam:
            inputs.append((gens.reweight(rng, g, [1, 2, 3]), 1))
        nrand = 40 if tier == 'quick' else 600
        for g in gens.random_graphs(rng, nrand, 5, 8, 18, [[1], [1, 2], [1, 2, 3], list(range(1, 40))]):
            inputs.append((g, 1))
        if tier != 'quick':
            for n in (7, 8):
                inputs.append((gens.reweight(rng, gens.complete(n), list(range(1, 50))), 1))
        lines = [vlib.graph_line(i, g['n'], g['edges'], den) for i, (g, den) in enumerate(inputs)]
        extra = ['--footprints', '--sched', sched, '--random', '6' if tier == 'quick' else '25', '--max-regions', '5' if tier == 'quick' else '12', '--seed', str(seed)]
        tr1 = vlib.parallel_record(exe, lines, wd, 'tbb_exact', extra=extra + ['--algos', 'signed_tbb,fvs_tbb,iso_tbb'], timeout=3000)
        st1 = strip_stats(tr1)
        tr2 = vlib.parallel_record(exe, lines, wd, 'tbb_approx', extra=extra + ['--algos', 'approx_signed_tbb,approx_fvs_tbb,approx_iso_tbb', '--ks', '1,2'], timeout=3000)
        st2 = strip_stats(tr2)
        # data-race clause: footprints of the tasks of every region on the shared concurrent_vectors
        r = vlib.tlc_ok('ParFor', 'MC_ParFor.cfg', extra=['-coverage', '1'])
        if r['violated']:
            raise vlib.HarnessError('MC_ParFor violated')
        res.add_mc('ParFor.tla: the support-vector update partitions rows k+1..csd-1; no row written by one task is touched by another, for every partition (the deviation First = k is refuted by MC_ParFor_pinned.cfg)', r)
        fp = os.path.join(wd, 'footprints.ndjson')
        with open(fp, 'w') as o:
            for t in (tr1, tr2):
                o.write(open(t + '.fp').read())
        nfp = sum(1 for _ in open(fp))
        multi = 0
        with open(fp) as f:
            for ln in f:
                if ln.count('"lo"') >= 2:
                    multi += 1
        vf = vlib.validate_trace('Trace_ParFor', 'Trace_ParFor.cfg', fp, start_event=None)
        res.add_validation(vf, nfp)
        res.cov['footprint_regions'] = {'regions': nfp, 'regions_with_2_or_more_tasks': multi}
        for rj in vf['rejects']:
            ev0 = json.loads(rj['segment'][0])
            res.violation({'algo': ev0.get('algo'), 'clauses': rj['clauses'], 'kind': ev0.get('kind'), 'n': ev0.get('n')}, {'trace_segment': rj['segment'][:1], 'spec': 'Trace_ParFor'})
        race_stage(res, tier, seed, wd)
        # region-level binding (diagnostic): each recorded region is an execution of ParRegion's small-step machine
        rg = os.path.join(wd, 'regions.ndjson')
        with open(rg, 'w') as o:
            for t in (tr1, tr2):
                o.write(open(t + '.regions').read())
        nrg = sum(1 for _ in open(rg))
        if nrg:
            vr = vlib.validate_trace('Trace_Region', 'Trace_Region.cfg', rg, start_event=None, recheck=False)
            res.add_validation(vr, nrg)
            anom = {}
            for rj in vr['rejects']:
                for cl in rj['clauses']:
                    anom[cl] = anom.get(cl, 0) + 1
            res.cov['region_binding'] = {'regions_validated_against_ParRegion': nrg, 'region_anomalies': sum(anom.values()), 'by_clause': anom,
                                         'note': 'diagnostic only (step invariants are stronger than the API-level property)'}
        v1 = vlib.validate_trace('Trace_Mcb', 'Trace_Mcb.cfg', tr1)
        v2 = vlib.validate_trace('Trace_Approx', 'Trace_Approx.cfg', tr2)
        ev1, ev2 = vlib.count_events(tr1), vlib.count_events(tr2)
        execs = sum(s['executions'] for s in st1 + st2)
        dist = sum(s['distinct'] for s in st1 + st2)
        res.add_validation(v1, ev1.get('Call', 0))
        res.add_validation(v2, ev2.get('Call', 0))
        judge(res, v1, 'Trace_Mcb')
        judge(res, v2, 'Trace_Approx')
        res.cov['event_counts'] = {'exact': ev1, 'approx': ev2}
        res.cov['evaluations'] = execs
        res.cov['distinct_nontrivial'] = dist
        res.cov['schedule_stats'] = {k: sum(s[k] for s in st1 + st2) for k in ('executions', 'distinct', 'regions', 'reduce_regions', 'for_regions', 'splittable_regions', 'splits', 'steals', 'targeted', 'target_hit')}
        res.cov['rule'] = ('each (graph, TBB entry point) is executed under: unsplit, 4 degenerate schedule families, seeded random schedules over all regions, and every TLC-generated schedule of '
                           'one region at a time; evaluations = entry-point executions; distinct_nontrivial = distinct observable behaviours (Call;Emit*;Return) validated by TLC')
        with open(tr1) as f:
            res.sample([json.loads(next(f)) for _ in range(3)])
        # many mid-size graphs with wide weight ranges (unique optima, several signed edges per phase) under the coarse
        # schedules: a body that is only right for single-index sub-ranges (state carried from one index of a sub-range to
        # the next) shows up when one task gets a whole range, and only if the phase's lightest odd cycle needs it
        mid = [(g, 1) for g in gens.random_graphs(rng, 700 if tier == 'quick' else 8000, 8, 12, 20, [list(range(1, 50)), list(range(1, 1000))])]
        # ... and dense ones (supports with >= n entries: the all-vertices branch, whose range is 0..n-1)
        for _ in range(900 if tier == 'quick' else 9000):
            n = rng.randint(6, 9)
            full = n * (n - 1) // 2
            m = rng.randint(full - 3, full) if rng.random() < 0.5 else rng.randint(min(2 * n + 2, full), full)     # half of them (nearly) complete
            ws = rng.choice([list(range(1, 50)), list(range(1, 1000)), list(range(1, 12))])
            mid.append((gens.rand_graph(rng, n, m, lambda: rng.choice(ws)), 1))
        ml = [vlib.graph_line(500000 + i, g['n'], g['edges'], den) for i, (g, den) in enumerate(mid)]
        trm = vlib.parallel_record(exe, ml, wd, 'tbb_mid', extra=['--random', '2', '--max-regions', '0', '--seed', str(seed), '--algos', 'signed_tbb'], timeout=3000)
        stm = strip_stats(trm)
        vm = vlib.validate_trace('Trace_Mcb', 'Trace_Mcb.cfg', trm)
        res.add_validation(vm, vlib.count_events(trm).get('Call', 0))
        judge(res, vm, 'Trace_Mcb')
        res.cov['mid_size_stage'] = {'graphs': len(mid), 'executions': sum(s['executions'] for s in stm), 'distinct_behaviours_validated': vlib.count_events(trm).get('Call', 0),
                                     'what': 'signed_tbb on random graphs n 8..12, m <= 20 and on dense graphs n 6..9 (m >= 2n+2), weights 1..49 / 1..999 / 1..11, under unsplit, the degenerate families and 2 random schedules'}
        # real oneTBB: true interleavings on graphs large enough for ranges to split
        exe2 = p_mcb.mcb_harness()
        big = []
        for g in gens.random_graphs(rng, 30 if tier == 'quick' else 300, 8, 12, 16, [[1, 2, 3], list(range(1, 50))]):
            big.append((g, 1))
        for n in (6, 7):
            big.append((gens.reweight(rng, gens.complete(n), [1, 2, 3]), 1))
        bl = [vlib.graph_line(i, g['n'], g['edges'], den) for i, (g, den) in enumerate(big)]
        tr3 = vlib.parallel_record(exe2, bl, wd, 'tbb_real', extra=['--algos', 'signed_tbb,fvs_tbb,iso_tbb', '--types', 'double', '--positional'], nproc=4)
        v3 = vlib.validate_trace('Trace_Mcb', 'Trace_Mcb.cfg', tr3)
        res.add_validation(v3, vlib.count_events(tr3).get('Call', 0))
        res.cov['real_onetbb_calls'] = vlib.count_events(tr3).get('Call', 0)
        judge(res, v3, 'Trace_Mcb')
        # real oneTBB on graphs large enough for ranges of hundreds of candidates / vertices to be split and stolen (also
        # with a grain size): the TBB variants must report what the sequential signed variant reports (History.tla)
        nbig = 6 if tier == 'quick' else 40
        files = []
        ncalls = 0
        biglines = []
        for f in range(nbig):
            n = rng.randint(40, 60)
            g = gens.rand_graph(rng, n, 3 * n, lambda: rng.randint(1, 50))
            for rep in range(3):
                biglines.append(vlib.graph_line(f * 10 + rep, g['n'], g['edges'], 1, extra=['fam=%d' % f, 'gid=0']))
        trs = vlib.parallel_record(exe2, biglines[::3], wd, 'big_seq', extra=['--algos', 'signed', '--types', 'double', '--no-emit', '--call-timeout', '600'], nproc=6)
        trp = vlib.parallel_record(exe2, biglines, wd, 'big_tbb', extra=['--algos', 'fvs_tbb,iso_tbb,signed_tbb', '--types', 'double', '--no-emit', '--call-timeout', '600'], nproc=2)
        seg = {}
        for tr in (trs, trp):
            cur = None
            with open(tr) as fh:
                for ln in fh:
                    if '"e":"Call"' in ln:
                        o = json.loads(ln); o['edges'] = []
                        cur = o['meta']['fam']
                        seg.setdefault(cur, []).append(json.dumps(o)); ncalls += 1
                    elif cur is not None:
                        seg[cur].append(ln.strip())
        # complete graphs K10..K13 with wide weights on vtbb (coarse schedules: unsplit, degenerate, random): late phases have supports
        # with >= n entries (the all-vertices branch is rare on smaller graphs); related to the sequential result like the large graphs
        ndense = 40 if tier == 'quick' else 400
        denselines = []
        for f in range(nbig, nbig + ndense):
            g = gens.reweight(rng, gens.complete(rng.randint(10, 13)), list(range(1, 1000)))
            denselines.append(vlib.graph_line(f * 10, g['n'], g['edges'], 1, extra=['fam=%d' % f, 'gid=0']))
        trd_seq = vlib.parallel_record(exe2, denselines, wd, 'dense_seq', extra=['--algos', 'signed', '--types', 'double', '--no-emit', '--call-timeout', '600'])
        trd = vlib.parallel_record(exe, denselines, wd, 'dense_vtbb', extra=['--random', '3', '--max-regions', '0', '--seed', str(seed), '--algos', 'signed_tbb,fvs_tbb'], timeout=3000)
        strip_stats(trd)
        for tr in (trd_seq, trd):
            cur = None
            with open(tr) as fh:
                for ln in fh:
                    if '"e":"Call"' in ln:
                        o = json.loads(ln); o['edges'] = []
                        cur = o['meta']['fam']
                        seg.setdefault(cur, []).append(json.dumps(o)); ncalls += 1
                    elif '"e":"Emit"' in ln:
                        continue
                    elif cur is not None:
                        seg[cur].append(ln.strip())
        nbig += ndense
        for f in range(nbig):
            path = os.path.join(wd, 'big%d.ndjson' % f)
            with open(path, 'w') as o:
                o.write(json.dumps({'e': 'Def', 'id': 0, 'rel': 'base', 'args': [], 'f': 1, 'n': 0, 'm': 0, 'small': False, 'edges': []}) + '\n')
                for ln in seg.get(f, []):
                    o.write(ln + '\n')
            files.append(path)
        vh = vlib.validate_trace('Trace_History', 'Trace_History.cfg', None, files=files)
        res.add_validation(vh, ncalls)
        res.cov['real_onetbb_large_graph_calls'] = ncalls
        for rj in vh['rejects']:
            call = rj['call']
            res.violation({'algo': call.get('algo'), 'clauses': rj['clauses'], 'meta': call.get('meta'), 'stage': 'large graphs, real oneTBB vs sequential'}, {'trace_segment': rj['segment'][:3], 'spec': 'Trace_History'})
    finally:
        shutil.rmtree(wd, ignore_errors=True)


REGISTRY = {'C03': check_C03}
