"""C03: the TBB entry points under every schedule (vtbb shim driven by TLC-generated schedules) and under real oneTBB."""
import json, os, random, shutil
import vlib, gens, p_mcb, p_approx
from p_comp import canon


def harness_vtbb():
    return vlib.build('h_tbb', [os.path.join(vlib.HARNESS, 'h_tbb.cpp')], flags=['-DVERIF_VTBB'], libs=('-lboost_timer',), shim='vtbb')


def tree_tokens(t, rng):
    if t['k'] == 'leaf':
        return 'L'
    rf = 1 if (t['stolen'] and rng.random() < 0.5) else 0
    return 'N %d %d %d %s %s' % (t['mid'], 1 if t['stolen'] else 0, rf, tree_tokens(t['l'], rng), tree_tokens(t['r'], rng))


def gen_schedules(wd, NR, NF, rng):
    outr, outf = os.path.join(wd, 'sched_r.ndjson'), os.path.join(wd, 'sched_f.ndjson')
    cfg = os.path.join(wd, 'Gen_Sched.cfg')
    with open(cfg, 'w') as f:
        f.write('CONSTANTS N = 1 VMAX = 1 NR = %d NF = %d\nINIT GInit\nNEXT GNext\nCHECK_DEADLOCK FALSE\n' % (NR, NF))
    vlib.tlc_ok('Gen_Sched', cfg, workers=1, env={'GEN_OUT_R': outr, 'GEN_OUT_F': outf}, tag='gen')
    lines = []
    nr = nf = 0
    for ln in open(outr):
        if ln.strip():
            o = json.loads(ln)
            if o['t']['k'] == 'leaf':
                continue
            lines.append('R %d %s' % (o['n'], tree_tokens(o['t'], rng)))
            nr += 1
    for ln in open(outf):
        if ln.strip():
            o = json.loads(ln)
            lines.append('F %d %d %s %s' % (o['n'], len(o['bounds']), ' '.join(map(str, o['bounds'])), ' '.join(map(str, o['perm']))))
            nf += 1
    path = os.path.join(wd, 'sched.txt')
    with open(path, 'w') as f:
        f.write('\n'.join(lines) + '\n')
    return path, nr, nf


CL = p_mcb.CLAUSES['C01'] | p_mcb.CLAUSES['C02'] | p_approx.C05 | p_approx.C06 | {'threw-on-valid-input'}


def strip_stats(trace):
    stats = []
    keep = []
    with open(trace) as f:
        for ln in f:
            if '"e":"Stats"' in ln:
                stats.append(json.loads(ln))
            else:
                keep.append(ln)
    with open(trace, 'w') as f:
        f.writelines(keep)
    return stats


def judge(res, v, spec):
    for rj in v['rejects']:
        mine = sorted(set(rj['clauses']) & CL)
        if not mine:
            continue
        call = rj['call']
        facts = {'algo': call.get('algo'), 'wt': call.get('wt'), 'k': call.get('k'), 'clauses': mine, 'n': call.get('n'), 'edges': call.get('edges'),
                 'den': call.get('den'), 'schedule': (call.get('meta') or {}).get('sched')}
        res.violation(facts, {'trace_segment': rj['segment'], 'spec': spec})


def check_C03(res, tier, seed, replay):
    rng = random.Random(seed)
    res.assumptions += ['vtbb executes each task (leaf body, join) atomically; it reproduces oneTBB\'s reduce semantics (non-stolen right half continues the same body, stolen half starts from the identity and is joined left-to-right) as specified in ParRegion.tla',
                        'data-race freedom is decided only as far as a conflict shows up as a schedule-dependent result; a commutative unsynchronised update would be missed (DESIGN.md section 6)']
    wd = vlib.scratch('C03')
    try:
        r = vlib.tlc_ok('ParRegion', 'MC_ParRegion_q.cfg' if tier == 'quick' else 'MC_ParRegion_t.cfg', extra=['-coverage', '1'], timeout=3000)
        if r['violated']:
            raise vlib.HarnessError('MC_ParRegion violated\n' + r['out'][-3000:])
        res.add_mc('ParRegion.tla: parallel_reduce with cycle_min / pruning body returns a global minimum under every schedule tree and every interleaving of runnable tasks; small-step machine = recursive Eval', r)
        exe = harness_vtbb()
        NR, NF = (5, 4) if tier == 'quick' else (6, 5)
        sched, nr, nf = gen_schedules(wd, NR, NF, rng)
        res.cov['schedules'] = 'TLC-generated: %d parallel_reduce schedule trees (n<=%d), %d parallel_for (partition, order) schedules (n<=%d)' % (nr, NR, nf, NF)
        # inputs: small dense graphs (all three search branches incl. |S| >= n), tie-heavy
        inputs = []
        N = 4
        gs, _ = gens.tlc_graphs(wd, N, [1, 2])
        sub = [g for g in gs if gens.csd(g) >= 2]
        inputs += [(g, 1) for g in (sub if tier != 'quick' else sub[::6])]
        for n in (5, 6):
            for ws in ([1], [1, 2], list(range(1, 30))):
                inputs.append((gens.reweight(rng, gens.complete(n), ws), 1))
        fam = [gens.petersen(), gens.hypercube(3), gens.grid(3, 3), gens.wheel(6), gens.bipartite(3, 3)]
        for g in fam:
            inputs.append((gens.reweight(rng, g, [1, 2, 3]), 1))
        nrand = 40 if tier == 'quick' else 600
        for g in gens.random_graphs(rng, nrand, 5, 8, 18, [[1], [1, 2], [1, 2, 3], list(range(1, 40))]):
            inputs.append((g, 1))
        if tier != 'quick':
            for n in (7, 8):
                inputs.append((gens.reweight(rng, gens.complete(n), list(range(1, 50))), 1))
        lines = [vlib.graph_line(i, g['n'], g['edges'], den) for i, (g, den) in enumerate(inputs)]
        extra = ['--sched', sched, '--random', '6' if tier == 'quick' else '25', '--max-regions', '5' if tier == 'quick' else '12', '--seed', str(seed)]
        tr1 = vlib.parallel_record(exe, lines, wd, 'tbb_exact', extra=extra + ['--algos', 'signed_tbb,fvs_tbb,iso_tbb'], timeout=3000)
        st1 = strip_stats(tr1)
        tr2 = vlib.parallel_record(exe, lines, wd, 'tbb_approx', extra=extra + ['--algos', 'approx_signed_tbb,approx_fvs_tbb,approx_iso_tbb', '--ks', '1,2'], timeout=3000)
        st2 = strip_stats(tr2)
        v1 = vlib.validate_trace('Trace_Mcb', 'Trace_Mcb.cfg', tr1)
        v2 = vlib.validate_trace('Trace_Approx', 'Trace_Approx.cfg', tr2)
        ev1, ev2 = vlib.count_events(tr1), vlib.count_events(tr2)
        execs = sum(s['executions'] for s in st1 + st2)
        dist = sum(s['distinct'] for s in st1 + st2)
        res.add_validation(v1, ev1.get('Call', 0))
        res.add_validation(v2, ev2.get('Call', 0))
        judge(res, v1, 'Trace_Mcb')
        judge(res, v2, 'Trace_Approx')
        res.cov['event_counts'] = {'exact': ev1, 'approx': ev2}
        res.cov['evaluations'] = execs
        res.cov['distinct_nontrivial'] = dist
        res.cov['schedule_stats'] = {k: sum(s[k] for s in st1 + st2) for k in ('executions', 'distinct', 'regions', 'reduce_regions', 'for_regions', 'splittable_regions', 'splits', 'steals', 'targeted', 'target_hit')}
        res.cov['rule'] = ('each (graph, TBB entry point) is executed under: unsplit, 4 degenerate schedule families, seeded random schedules over all regions, and every TLC-generated schedule of '
                           'one region at a time; evaluations = entry-point executions; distinct_nontrivial = distinct observable behaviours (Call;Emit*;Return) validated by TLC')
        with open(tr1) as f:
            res.sample([json.loads(next(f)) for _ in range(3)])
        # real oneTBB: true interleavings on graphs large enough for ranges to split
        exe2 = p_mcb.mcb_harness()
        big = []
        for g in gens.random_graphs(rng, 30 if tier == 'quick' else 300, 8, 12, 16, [[1, 2, 3], list(range(1, 50))]):
            big.append((g, 1))
        for n in (6, 7):
            big.append((gens.reweight(rng, gens.complete(n), [1, 2, 3]), 1))
        bl = [vlib.graph_line(i, g['n'], g['edges'], den) for i, (g, den) in enumerate(big)]
        tr3 = vlib.parallel_record(exe2, bl, wd, 'tbb_real', extra=['--algos', 'signed_tbb,fvs_tbb,iso_tbb', '--types', 'double'], nproc=4)
        v3 = vlib.validate_trace('Trace_Mcb', 'Trace_Mcb.cfg', tr3)
        res.add_validation(v3, vlib.count_events(tr3).get('Call', 0))
        res.cov['real_onetbb_calls'] = vlib.count_events(tr3).get('Call', 0)
        judge(res, v3, 'Trace_Mcb')
    finally:
        shutil.rmtree(wd, ignore_errors=True)


REGISTRY = {'C03': check_C03}
