"""C20: the concurrency knob (real oneTBB for the library function, vtbb for the demos' --cores option)."""
import json, os, random, shutil, subprocess
import vlib, gens, p_dimacs


def check_C20(res, tier, seed, replay):
    rng = random.Random(seed)
    res.assumptions += ['tbb::global_control::active_value(max_allowed_parallelism) of the system oneTBB is the observable for "allowed parallelism"',
                        'the demos are observed on the vtbb shim, whose global_control mirrors oneTBB (active = min over live controls, hardware default 16)']
    wd = vlib.scratch('C20')
    try:
        r = vlib.tlc_ok('Concurrency', 'MC_Concurrency.cfg', extra=['-coverage', '1'])
        if r['violated']:
            raise vlib.HarnessError('MC_Concurrency violated\n' + r['out'][-2000:])
        res.add_mc('Concurrency.tla (shape "held"): after set_global_tbb_concurrency(n) returns, allowed parallelism = n until the next call, for all call sequences of length <= 3 over {1,2,3,16,20}; the pinned "local" shape is refuted by MC_Concurrency_pinned.cfg', r)
        exe = vlib.build('h_conc', [os.path.join(vlib.HARNESS, 'h_conc.cpp')])
        vals = [1, 2, 3, 5, 16, 24]
        hist = [[str(a), 'R'] for a in vals]
        hist += [[str(a), 'R', str(b), 'R'] for a in vals for b in vals if a != b][::(3 if tier == 'quick' else 1)]
        hist += [[str(a), 'R', str(a), 'R', str(b), 'R', str(a), 'R'] for a, b in ((1, 3), (5, 2), (16, 24), (24, 3))]      # same value twice, back and forth
        hist += [[str(rng.choice(vals)) if rng.random() < 0.6 else 'R' for _ in range(8)] for _ in range(10 if tier == 'quick' else 100)]
        # the same histories with the argument held in different integral types by the caller (int, unsigned, long, ...)
        tys = ['', 'i', 'u', 'l', 'h', 'q']
        hist += [[str(a) + ta, 'R', str(b) + tb, 'R'] for (a, b) in ((2, 8), (8, 2), (1, 16), (3, 24), (24, 5)) for ta in tys for tb in tys if ta != tb][::(2 if tier == 'quick' else 1)]
        hist += [[(str(rng.choice(vals)) + rng.choice(tys)) if rng.random() < 0.6 else 'R' for _ in range(8)] for _ in range(10 if tier == 'quick' else 100)]
        trace = os.path.join(wd, 'conc.ndjson')
        with open(trace, 'w') as out:
            for i, h in enumerate(hist):
                f = os.path.join(wd, 'h%d.ndjson' % i)
                rc, o = vlib.run_harness(exe, ['--out', f] + h, timeout=60)
                if rc != 0:
                    raise vlib.HarnessError('h_conc failed: %s' % o)
                out.write(open(f).read())
        # part B: demos on vtbb
        src = os.path.join(vlib.REPO, 'src')
        demos = {}
        specs = []
        for name in ('mcb-dimacs', 'approx-mcb-dimacs'):
            specs.append(dict(name='h_concdemo_' + name.replace('-', '_'), sources=[os.path.join(vlib.HARNESS, 'h_concdemo.cpp')],
                              flags=['-DDEMO_SRC="%s"' % os.path.join(src, name + '.cpp'), '-DDEMO_NAME="%s"' % name],
                              libs=('-lboost_timer', '-lboost_program_options', '-lboost_thread', '-lboost_system', '-lpthread'), shim='vtbb'))
        exes = vlib.build_many(specs)
        g = gens.reweight(rng, gens.complete(5), [1, 2, 3, 4])
        gfile = os.path.join(wd, 'k5.dimacs')
        with open(gfile, 'w') as f:
            f.write(p_dimacs.demo_file_text(g))
        algo_flags = {'signed': [], 'fvs': ['--signed=false', '--fvstrees=true'], 'iso': ['--signed=false', '--isotrees=true'],
                      'iso_by_default': ['--signed=false'], 'signed_explicit': ['--signed=true', '--fvstrees=true']}
        ndemo = 0
        with open(trace, 'a') as out:
            for exe_d, name in zip(exes, ('mcb-dimacs', 'approx-mcb-dimacs')):
                for a, fl in algo_flags.items():
                    for cores in (0, 1, 3, 7):
                        for extra in ([], ['--verbose=true'], ['--printcycles=true'], ['--verbose=true', '--printcycles=true']):
                            for par in ('true', 'false'):
                                args = fl + ['--parallel=' + par, '--cores', str(cores)] + extra + (['--k', '2'] if name.startswith('approx') else []) + [gfile]
                                f = os.path.join(wd, 'd%d.ndjson' % ndemo)
                                ndemo += 1
                                p = subprocess.run([exe_d, '--out', f, '--'] + args, stdout=subprocess.DEVNULL, stderr=subprocess.DEVNULL, timeout=120)
                                if p.returncode != 0 or not os.path.exists(f):
                                    raise vlib.HarnessError('h_concdemo failed on %s' % args)
                                out.write(open(f).read())
        ev = vlib.count_events(trace)
        v = vlib.validate_trace('Trace_Conc', 'Trace_Conc.cfg', trace, start_event='Reset', nchunks=4)
        res.add_validation(v, len(hist) + ndemo)
        res.cov['event_counts'] = ev
        res.cov['evaluations'] = len(hist) + ndemo
        res.cov['distinct_nontrivial'] = len({tuple(h) for h in hist}) + ndemo
        res.cov['rule'] = 'histories of set_global_tbb_concurrency(n)/region on real oneTBB (one process each), n in {1,2,3,5,8,16,24}, the argument passed as size_t / int / unsigned / long / unsigned short / unsigned long long; demo runs = program x algorithm x --cores {0,1,3,7} x --parallel x unrelated flags on vtbb'
        with open(trace) as f:
            res.sample([json.loads(next(f)) for _ in range(4)])
        for rj in v['rejects']:
            call = rj['call']
            seg = rj['segment']
            ev0 = json.loads(seg[0]) if seg else {}
            facts = {'event': ev0.get('e'), 'prog': ev0.get('prog'), 'opts': ev0.get('opts'), 'clauses': rj['clauses'], 'n': ev0.get('n'), 'active_after': ev0.get('active_after'), 'cores': ev0.get('cores')}
            res.violation(facts, {'trace_segment': seg[:2], 'spec': 'Trace_Conc'})
    finally:
        shutil.rmtree(wd, ignore_errors=True)


REGISTRY = {'C20': check_C20}
