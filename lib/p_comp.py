"""C12 C13 C14 C16: building blocks.  Model checking of the implementation-shaped models (ForestIndex.tla,
Fvs.tla, LexSpt.tla) + TLC validation of recorded component observations against Components.tla."""
import json, os, random, shutil
import vlib, gens


def harness():
    return vlib.build('h_comp', [os.path.join(vlib.HARNESS, 'h_comp.cpp')])


def run_comp(res, tier, seed, replay, mode, inputs, types='double', clause_filter=None, note='', extra_lines=None):
    wd = vlib.scratch(res.pid)
    try:
        exe = harness()
        if replay:
            obj = json.load(open(replay))
            ev = json.loads(obj['replay']['trace_segment'][0])
            if ev.get('fam'):
                inputs, replay_lines = [], [vlib.graph_line(900000, 0, [], 1, extra=['fam=%s' % ev['fam'], 'a=%d' % ev['a'], 'b=%d' % ev['b']])]
            else:
                inputs, replay_lines = [({'n': ev['n'], 'edges': [tuple(e) for e in ev['edges']]}, ev.get('den', 1))], []
            types = ev.get('wt') or 'double'
        lines = [vlib.graph_line(i, g['n'], g['edges'], den) for i, (g, den) in enumerate(inputs)]
        if extra_lines and not replay:
            lines += extra_lines
        if replay:
            lines += replay_lines
        trace = vlib.parallel_record(exe, lines, wd, 'comp', extra=['--modes', mode, '--types', types])
        ev = vlib.count_events(trace)
        res.cov['event_counts'] = ev
        v = vlib.validate_trace('Trace_Comp', 'Trace_Comp.cfg', trace, start_event=None, env={'DIAGN': '4' if tier == 'quick' else '5'},
                                timeout=3600 if tier == 'quick' else 3 * 3600)      # (thorough runs may share the machine with other checks)
        n = sum(ev.values())
        res.add_validation(v, n)
        if v.get('ndiag'):
            res.cov['model_binding'] = {'events_compared_with_Collections_model': v['ndiag'], 'differences': v['diags'],
                                        'note': 'diagnostic only: Horton / isometric candidate sets of the code vs the sets Collections.tla derives from the canonical lexicographic trees'}
        res.cov['evaluations'] = n
        with open(trace) as f:
            for k, ln in enumerate(f):
                if k in (len(lines) // 2, len(lines) - 1):
                    res.sample(json.loads(ln))
        for rj in v['rejects']:
            call = rj['call']
            cl = rj['clauses'] if clause_filter is None else [c for c in rj['clauses'] if clause_filter(c)]
            if not cl:
                continue
            facts = {'event': call.get('e'), 'wt': call.get('wt'), 'clauses': cl, 'n': call.get('n'), 'edges': call.get('edges'), 'den': call.get('den')}
            if call.get('fam'):
                facts.update({'family': call['fam'], 'a': call.get('a'), 'b': call.get('b')})
            if call.get('ctx'):
                facts['input_line'] = call['ctx']
            res.violation(facts, {'trace_segment': rj['segment'], 'spec': 'Trace_Comp'})
        return inputs
    finally:
        shutil.rmtree(wd, ignore_errors=True)


def canon(g):
    return (g['n'], tuple(sorted((min(u, v), max(u, v), w) for u, v, w in g['edges'])))


def mc(res, module, cfg, what, timeout=3000):
    r = vlib.tlc_ok(module, cfg, extra=['-coverage', '1'], timeout=timeout)
    if r['violated']:
        raise vlib.HarnessError('%s/%s violated: the implementation-shaped model does not refine the abstract specification\n%s' % (module, cfg, r['out'][-3000:]))
    res.add_mc(what, r)


# ---------------------------------------------------------------------------------------------
def check_C16(res, tier, seed, replay):
    rng = random.Random(seed)
    res.assumptions += ['TLC evaluates Components!ForestViol correctly', 'unordered_set iteration order cannot be forced in the real code: all root orders are covered on the model only (MC_ForestIndex)']
    if not replay:
        mc(res, 'ForestIndex', 'MC_ForestIndex_q.cfg' if tier == 'quick' else 'MC_ForestIndex_t.cfg',
           'ForestIndex impl model (BFS from ANY unreached root, two-counter numbering) refines the abstract index, all graphs n<=%d' % (4 if tier == 'quick' else 5))
    wd = vlib.scratch('C16g')
    try:
        N = 5
        gs, _ = gens.tlc_graphs(wd, N, [1])
    finally:
        shutil.rmtree(wd, ignore_errors=True)
    inputs = [(g, 1) for g in gs]
    inputs += [(gens.reversed_order(g), 1) for g in gs if g['edges']]
    res.cov['exhaustive_space'] = 'all simple labelled graphs with <= %d vertices in two insertion orders (TLC-enumerated): %d' % (N, len(gs))
    nr = 300 if tier == 'quick' else 5000
    for _ in range(nr):
        n = rng.randint(1, 14)
        m = rng.randint(0, min(n * (n - 1) // 2, rng.choice([2, n // 2, n, 2 * n])))
        inputs.append((gens.rand_graph(rng, n, m, lambda: 1), 1))
    for n in (0, 1, 2, 7, 12):
        inputs.append(({'n': n, 'edges': []}, 1))          # empty and edgeless graphs
    for core in (gens.cycle(3), gens.complete(4), gens.grid(2, 3), gens.union(gens.cycle(3), gens.cycle(4))):
        for t in range(1, 7):
            g = gens.with_tree_components(rng, core, t)
            inputs.append((g, 1)); inputs.append((gens.permuted(rng, g), 1))
    for g in gens.families(rng, big=(tier != 'quick'))[::3]:
        inputs.append((gens.union(g, {'n': 3, 'edges': []}), 1))
    # more than 2^8 / 2^16 vertices or edges (an index or counter narrower than size_t wraps there): families described by
    # parameters, decided by the closed form Components!ForestFamViol
    fam = [(f, a, 0) for f in ('path', 'star', 'cycle') for a in (255, 256, 257, 258)] + [('path', 65536, 0), ('path', 65537, 0), ('path', 65538, 0), ('star', 65537, 0),
           ('cycle', 65535, 0), ('cycle', 65536, 0), ('cycle', 65537, 0), ('twocycles', 32768, 0), ('twocycles', 40000, 0), ('matching', 70000, 100), ('matching', 65537, 32768),
           ('matching', 300, 0), ('matching', 65536, 1)]
    fl = [vlib.graph_line(900000 + i, 0, [], 1, extra=['fam=%s' % f, 'a=%d' % a, 'b=%d' % b]) for i, (f, a, b) in enumerate(fam)]
    run_comp(res, tier, seed, replay, 'forest', inputs, extra_lines=fl)
    res.cov['large_families'] = ['%s(%d,%d)' % f for f in fam]
    res.cov['distinct_nontrivial'] = len({canon(g) for g, _ in inputs if len(g['edges']) >= 1})
    res.cov['rule'] = 'ForestIndex built on every input; non-trivial = distinct graph with at least one edge'


def check_C13(res, tier, seed, replay):
    rng = random.Random(seed)
    res.assumptions += ['pairing-heap order among equal priorities cannot be forced in the real code: every order is covered on the model only (MC_Fvs)']
    if not replay:
        mc(res, 'Fvs', 'MC_Fvs_m.cfg' if tier == 'quick' else 'MC_Fvs_t.cfg',
           'greedy_fvs impl model (degree bookkeeping, LIFO clean-up with double pushes, any max-degree pop, stale heap entries) refines FvsViol = {} for all graphs n<=%d' % (5 if tier == 'quick' else 6))
    wd = vlib.scratch('C13g')
    try:
        N = 5 if tier == 'quick' else 6
        gs, _ = gens.tlc_graphs(wd, N, [1])
    finally:
        shutil.rmtree(wd, ignore_errors=True)
    inputs = [(g, 1) for g in gs]
    res.cov['exhaustive_space'] = 'all simple labelled graphs with <= %d vertices (TLC-enumerated): %d' % (N, len(gs))
    nr = 600 if tier == 'quick' else 8000
    for k in range(nr):
        n = rng.randint(3, 13)
        core = gens.rand_graph(rng, n, rng.randint(n - 1, min(n * (n - 1) // 2, 2 * n)), lambda: 1)
        g = gens.with_pendant(rng, core, rng.randint(0, 5))
        if k % 3 == 0:
            g = gens.union(g, gens.cycle(rng.randint(3, 5)))
        if k % 5 == 0:
            g = gens.permuted(rng, g)
        inputs.append((g, 1))
    for g in gens.families(rng, big=(tier != 'quick'))[::3]:
        inputs.append((gens.with_pendant(rng, g, 3), 1))
        inputs.append((gens.permuted(rng, g), 1))
    # a cyclic core next to several separate tree components (single edges, paths, stars), every count 0..8
    cores = [gens.cycle(3), gens.cycle(4), gens.complete(4), gens.wheel(5), gens.union(gens.cycle(3), gens.cycle(3)), gens.with_pendant(rng, gens.cycle(3), 2)]
    for core in cores:
        for t in range(0, 9):
            for _ in range(2 if tier == 'quick' else 8):
                g = gens.with_tree_components(rng, core, t)
                inputs.append((g if rng.random() < 0.5 else gens.permuted(rng, g), 1))
    # degrees around 2^8 and 2^16 (a degree counter narrower than size_t wraps there): wheels and a hub over many triangles,
    # described by parameters and decided by the closed form Components!FvsFamViol
    fam = [('wheel', a, 0) for a in (254, 255, 256, 257, 65535, 65536, 65537)]
    fam += [('hubtri', a, b) for a, b in ((127, 1), (128, 0), (128, 1), (32767, 1), (32768, 0), (32768, 1), (32768, 2), (65536, 0), (65536, 1))]
    if tier != 'quick':
        fam += [('wheel', a, 0) for a in (65534, 65538, 131071, 131072, 131073)] + [('hubtri', a, b) for a in (32766, 32767, 32768, 32769) for b in (0, 1, 2, 3)]
    fl = [vlib.graph_line(900000 + i, 0, [], 1, extra=['fam=%s' % f, 'a=%d' % a, 'b=%d' % b]) for i, (f, a, b) in enumerate(fam)]
    run_comp(res, tier, seed, replay, 'fvs', inputs, extra_lines=fl)
    res.cov['large_degree_families'] = ['%s(%d,%d)' % f for f in fam]
    res.cov['distinct_nontrivial'] = len({canon(g) for g, _ in inputs if gens.csd(g) >= 1})
    res.cov['rule'] = 'greedy_fvs on every input; non-trivial = distinct graph containing a cycle; plus wheels / hub-over-triangles with hub degree around 2^8 and 2^16'


def tie_inputs(rng, tier, wd):
    N = 4 if tier == 'quick' else 5
    gs, _ = gens.tlc_graphs(wd, N, [1, 2])
    inputs = [(g, 1) for g in gs]
    fam = [gens.grid(2, 3), gens.grid(3, 3), gens.hypercube(3), gens.bipartite(2, 3), gens.bipartite(3, 3), gens.cycle(6), gens.cycle(8),
           gens.petersen(), gens.complete(5), gens.wheel(6), gens.union(gens.cycle(4), gens.cycle(6))]
    if tier != 'quick':
        fam += [gens.grid(3, 4), gens.grid(4, 4), gens.hypercube(4), gens.bipartite(3, 4), gens.bipartite(4, 4), gens.complete(7), gens.ladder(6)]
    for g in fam:
        inputs.append((g, 1))
        for _ in range(2 if tier == 'quick' else 6):
            inputs.append((gens.permuted(rng, g), 1))
        inputs.append((gens.reweight(rng, g, [1, 2]), 1))
    nr = 150 if tier == 'quick' else 2500
    for g in gens.random_graphs(rng, nr, 4, 10, 18, [[1], [1], [1, 2], [1, 2, 3], [2, 3, 5], list(range(1, 30))]):
        inputs.append((g, 1))
    for g in gens.random_graphs(rng, nr // 5, 4, 9, 14, [[1, 2, 3, 4, 6], [2, 3]]):
        inputs.append((g, 4))
    return inputs, len(gs), N


def check_C12(res, tier, seed, replay):
    rng = random.Random(seed)
    wd = vlib.scratch('C12g')
    try:
        inputs, ne, N = tie_inputs(rng, tier, wd)
    finally:
        shutil.rmtree(wd, ignore_errors=True)
    if not replay and os.path.exists(os.path.join(vlib.SPEC, 'MC_LexSpt_q.cfg')):
        mc(res, 'LexSpt', 'MC_LexSpt_q.cfg' if tier == 'quick' else 'MC_LexSpt_t.cfg',
           'lexicographic Dijkstra model (any heap-minimum, any relaxation order) yields exact, reversal-symmetric, sub-path-closed trees')
    res.cov['exhaustive_space'] = 'all simple labelled graphs with <= %d vertices, weights {1,2} (TLC-enumerated): %d' % (N, ne)
    # stars with more than 2^8 / 2^16 vertices (vertex ids, hop counts or distances held in a narrower type wrap there)
    fam = [('star', 257, 1), ('star', 257, 3), ('star', 65537, 1), ('star', 65538, 3), ('star2', 256, 1), ('star2', 33000, 2)]
    fl = [vlib.graph_line(900000 + i, 0, [], 1, extra=['fam=%s' % f, 'a=%d' % a, 'b=%d' % b]) for i, (f, a, b) in enumerate(fam)]
    run_comp(res, tier, seed, replay, 'spt', inputs, types='double,int', extra_lines=fl)
    res.cov['large_families'] = ['%s(%d,w=%d)' % f for f in fam]
    res.cov['distinct_nontrivial'] = len({canon(g) for g, _ in inputs if gens.csd(g) >= 1})
    res.cov['rule'] = 'SPTree rooted at every vertex of every input; non-trivial = distinct graph with a cycle (alternative paths exist)'


def check_C14(res, tier, seed, replay):
    rng = random.Random(seed)
    wd = vlib.scratch('C14g')
    try:
        inputs, ne, N = tie_inputs(rng, tier, wd)
    finally:
        shutil.rmtree(wd, ignore_errors=True)
    if not replay:
        mc(res, 'Collections', 'MC_Collections_q.cfg' if tier == 'quick' else 'MC_Collections_t.cfg',
           'Collections.tla: Horton / FVS (every feedback vertex set) / ISO (linking rules of ISOCyclesBuilder incl. the operator[] fallback) on the canonical trees: sound, sufficient, fallback never taken')
    res.cov['exhaustive_space'] = 'all simple labelled graphs with <= %d vertices, weights {1,2} (TLC-enumerated): %d' % (N, ne)
    # small graphs in which equal-weight shortest paths with different numbers of edges are common (the isometric filter relies on
    # the mutual consistency of the trees exactly there; a lost tie-break shows on about one such graph in a thousand)
    for _ in range(4000 if tier == 'quick' else 8000):
        n = rng.randint(5, 7) if tier == 'quick' else rng.randint(6, 7)      # (thorough: above the size limit of the model comparison)
        m = rng.randint(n, min(n * (n - 1) // 2, 10))
        ws = rng.choice([[1, 2], [1, 2, 3], [1, 2, 3]])
        inputs.append((gens.rand_graph(rng, n, m, lambda: rng.choice(ws)), 1))
    run_comp(res, tier, seed, replay, 'coll', inputs, types='double,int')
    res.cov['distinct_nontrivial'] = len({canon(g) for g, _ in inputs if gens.csd(g) >= 2})
    res.cov['rule'] = 'Horton/FVS/ISO builders on every input; non-trivial = distinct graph with cycle-space dimension >= 2'


REGISTRY = {'C16': check_C16, 'C13': check_C13, 'C12': check_C12, 'C14': check_C14}
