"""Shared machinery of /verif/bin/check: content-addressed harness builds from the working tree of
the repository, TLC runs (model checking, generation, trace validation), evidence files and the
known-findings protocol.  Python only orchestrates; every verdict comes from TLC evaluating a TLA+
specification (or, for C19, the compiler/linker + TLC's ODR rule)."""
import concurrent.futures as cf
import hashlib, json, os, re, shutil, subprocess, sys, time, random

ROOT = os.path.dirname(os.path.dirname(os.path.abspath(__file__)))
REPO = os.environ.get('VERIF_REPO', '/repo')
BUILD = os.path.join(ROOT, '.build')
SPEC = os.path.join(ROOT, 'spec')
HARNESS = os.path.join(ROOT, 'harness')
SHIM = os.path.join(ROOT, 'shim')
EVID = os.environ.get('VERIF_EVIDENCE_DIR') or os.path.join(ROOT, 'evidence')
JAR = '/opt/veriftools/tla/tla2tools.jar:/opt/veriftools/tla/CommunityModules-deps.jar'
NCPU = os.cpu_count() or 4
GUARD = 'PARMCB_VERIF'


class HarnessError(Exception):
    """The machinery itself failed (build, TLC parse error, missing tool): never a VIOLATION."""


def log(*a):
    print(*a, flush=True)


def sh(cmd, timeout=None, env=None, cwd=None, check=False):
    p = subprocess.run(cmd, shell=isinstance(cmd, str), stdout=subprocess.PIPE, stderr=subprocess.STDOUT,
                       timeout=timeout, env=env, cwd=cwd, text=True, errors='replace')
    if check and p.returncode != 0:
        raise HarnessError('command failed (%d): %s\n%s' % (p.returncode, cmd, p.stdout[-4000:]))
    return p


# ------------------------------------------------------------------------------------------------
# repository snapshot hash + generated config.hpp
# ------------------------------------------------------------------------------------------------
def _files_under(d, exts=None):
    r = []
    for base, dirs, files in os.walk(d):
        dirs.sort()
        if '_build' in dirs:
            dirs.remove('_build')
        for f in sorted(files):
            if exts is None or os.path.splitext(f)[1] in exts:
                r.append(os.path.join(base, f))
    return r


_repo_hash = None


def repo_hash():
    global _repo_hash
    if _repo_hash is None:
        h = hashlib.sha256()
        for d in ('include', 'src'):
            for f in _files_under(os.path.join(REPO, d)):
                h.update(f.encode())
                h.update(open(f, 'rb').read())
        _repo_hash = h.hexdigest()[:16]
    return _repo_hash


def config_include(tbb=True, mpi=True):
    """Generate parmcb/config.hpp from the repository's config.hpp.in (what CMake's configure_file
    does) into .build, so that no check depends on /repo/_build."""
    tag = 'cfg_%d%d' % (tbb, mpi)
    d = os.path.join(BUILD, 'gen', tag)
    out = os.path.join(d, 'parmcb', 'config.hpp')
    src = open(os.path.join(REPO, 'include/parmcb/config.hpp.in')).read()
    on = {'PARMCB_HAVE_BOOST': True, 'PARMCB_HAVE_TBB': tbb, 'PARMCB_HAVE_MPI': mpi,
          'PARMCB_LOGGING': False, 'PARMCB_INVARIANTS_CHECK': True}

    def rep(m):
        k = m.group(1)
        return ('#define %s' % k) if on.get(k, False) else ('/* #undef %s */' % k)
    txt = re.sub(r'#cmakedefine\s+(\w+)', rep, src)
    os.makedirs(os.path.dirname(out), exist_ok=True)
    if not os.path.exists(out) or open(out).read() != txt:
        with open(out + '.tmp', 'w') as f:
            f.write(txt)
        os.replace(out + '.tmp', out)
    return d


# ------------------------------------------------------------------------------------------------
# content-addressed builds
# ------------------------------------------------------------------------------------------------
CXX = 'g++'
BASEFLAGS = ['-std=c++14', '-O1', '-DNDEBUG', '-w', '-D' + GUARD]


def build(name, sources, flags=(), libs=('-ltbb', '-lboost_timer'), shim=None, tbb=True, mpi=True,
          cxx=None, extra_dep_dirs=()):
    """Compile `sources` (paths) against the CURRENT working tree of the repository.  The binary is
    cached under a key that hashes every file of /repo/include and /repo/src, the harness sources,
    the shim and the flags, so any edit of the repository forces a rebuild."""
    h = hashlib.sha256()
    h.update(repo_hash().encode())
    deps = list(sources) + _files_under(HARNESS, {'.hpp', '.h'})
    shims = [shim] if isinstance(shim, str) else list(shim or [])
    for sh_ in shims:
        deps += _files_under(os.path.join(SHIM, sh_))
    for d in extra_dep_dirs:
        deps += _files_under(d)
    for f in deps:
        h.update(f.encode())
        h.update(open(f, 'rb').read())
    h.update(repr((flags, libs, shim, tbb, mpi, cxx, BASEFLAGS)).encode())
    key = h.hexdigest()[:16]
    bdir = os.path.join(BUILD, 'bin')
    os.makedirs(bdir, exist_ok=True)
    exe = os.path.join(bdir, '%s-%s' % (name, key))
    if os.path.exists(exe):
        return exe
    inc = []
    for sh_ in shims:
        inc += ['-I' + os.path.join(SHIM, sh_)]
    inc += ['-I' + HARNESS, '-I' + os.path.join(REPO, 'include'), '-I' + config_include(tbb, mpi)]
    cmd = [cxx or CXX] + BASEFLAGS + list(flags) + inc + list(sources) + ['-o', exe + '.tmp%d' % os.getpid()] + list(libs)
    t0 = time.time()
    p = sh(cmd, timeout=1500)
    if p.returncode != 0:
        raise HarnessError('build of %s failed:\n%s\n%s' % (name, ' '.join(cmd), p.stdout[-6000:]))
    os.replace(exe + '.tmp%d' % os.getpid(), exe)
    # drop stale binaries of the same harness
    for f in os.listdir(bdir):
        if f.startswith(name + '-') and f != os.path.basename(exe) and '.tmp' not in f:
            try:
                if time.time() - os.path.getmtime(os.path.join(bdir, f)) > 6 * 3600:
                    os.remove(os.path.join(bdir, f))
            except OSError:
                pass
    log('[build] %s in %.1fs' % (name, time.time() - t0))
    return exe


def build_many(specs):
    """specs: list of kwargs dicts for build(); built in parallel; returns list of paths."""
    with cf.ThreadPoolExecutor(max_workers=min(len(specs), NCPU)) as ex:
        futs = [ex.submit(build, **s) for s in specs]
        return [f.result() for f in futs]


# ------------------------------------------------------------------------------------------------
# TLC
# ------------------------------------------------------------------------------------------------
_tlc_seq = [0]


def tlc(module, cfg, workers=NCPU, env=None, timeout=3600, extra=(), xmx='8g', cwd=SPEC, dfs=False, tag=None):
    """Run TLC.  Returns dict(rc, out, generated, distinct, depth, violated(bool), error(bool)).
    rc 0 = ok, 12/13 = invariant / property violation, anything else (parse errors, 150/151...) is a
    machinery error and raises HarnessError unless it is a spec-level violation."""
    _tlc_seq[0] += 1
    meta = os.path.join(BUILD, 'tlc', '%s_%d_%d' % (tag or module, os.getpid(), _tlc_seq[0]))
    shutil.rmtree(meta, ignore_errors=True)
    os.makedirs(meta, exist_ok=True)
    jopts = ['-XX:+UseParallelGC', '-Xss64m', '-Xmx' + xmx]
    if dfs:
        jopts.append('-Dtlc2.tool.queue.IStateQueue=StateDeque')
    cmd = ['java'] + jopts + ['-cp', JAR, 'tlc2.TLC', '-noGenerateSpecTE', '-workers', str(workers), '-metadir', meta,
                              '-config', cfg] + list(extra) + [module]
    e = dict(os.environ)
    if env:
        e.update({k: str(v) for k, v in env.items()})
    t0 = time.time()
    try:
        p = subprocess.run(cmd, stdout=subprocess.PIPE, stderr=subprocess.STDOUT, timeout=timeout, env=e,
                           cwd=cwd, text=True, errors='replace')
        out, rc = p.stdout, p.returncode
    except subprocess.TimeoutExpired as ex:
        out = (ex.stdout or b'').decode(errors='replace') if isinstance(ex.stdout, bytes) else (ex.stdout or '')
        rc = -9
    finally:
        shutil.rmtree(meta, ignore_errors=True)
    r = {'rc': rc, 'out': out, 'wall': time.time() - t0, 'generated': 0, 'distinct': 0, 'depth': 0}
    m = re.search(r'(\d+) states generated, (\d+) distinct states found', out)
    if m:
        r['generated'], r['distinct'] = int(m.group(1)), int(m.group(2))
    m = re.search(r'depth of the complete state graph search is (\d+)', out)
    if m:
        r['depth'] = int(m.group(1))
    r['violated'] = rc in (12, 13) or 'is violated' in out
    r['postcondition_failed'] = 'Evaluating postcondition' in out and 'false' in out.lower() or 'POSTCONDITION' in out and 'violated' in out.lower()
    r['error'] = (rc not in (0, 12, 13)) and not r['violated']
    return r


def tlc_ok(module, cfg, **kw):
    """Model-check; raise HarnessError on machinery failure; return result (check r['violated'])."""
    r = tlc(module, cfg, **kw)
    if r['rc'] == -9:
        raise HarnessError('TLC timed out on %s/%s' % (module, cfg))
    if r['error']:
        raise HarnessError('TLC failed on %s/%s rc=%s\n%s' % (module, cfg, r['rc'], r['out'][-5000:]))
    return r


def coverage_counts(out):
    """per-action 'taken:generated' lines from -coverage output -> dict name -> (taken, generated)"""
    cov = {}
    for m in re.finditer(r'<(\w+) line \d+, col \d+ to line \d+, col \d+ of module (\w+)>: (\d+):(\d+)', out):
        cov[m.group(2) + '!' + m.group(1)] = (int(m.group(3)), int(m.group(4)))
    return cov


# ------------------------------------------------------------------------------------------------
# trace validation
# ------------------------------------------------------------------------------------------------
# TLC pretty-prints long values over several lines with extra blanks:  << "REJECT",\n   1,\n   1,\n   { "a",\n     "b" } >>
REJ = re.compile(r'<<\s*"REJECT",\s*(\d+),\s*(\d+),\s*\{([^}]*)\}\s*>>', re.S)


DIAG = re.compile(r'<<\s*"DIAG",\s*(\d+),\s*\{([^}]*)\}\s*>>', re.S)


def split_trace(path, nchunks, start_event='Call'):
    """Cut an ndjson trace into <= nchunks files at `start_event` boundaries; returns [(file, first_line_no)]"""
    lines = open(path).read().splitlines()
    if start_event is None:
        starts = list(range(len(lines)))
    else:
        pat = start_event if '"' in start_event else ('"e":"%s"' % start_event)
        starts = [i for i, ln in enumerate(lines) if pat in ln]
    if not starts:
        if any(ln.strip() for ln in lines):
            raise HarnessError('trace %s has %d lines but no chunk start event %r' % (path, len(lines), start_event))
        return [], 0
    per = max(1, (len(starts) + nchunks - 1) // nchunks)
    chunks = []
    for c in range(0, len(starts), per):
        a = starts[c]
        b = starts[c + per] if c + per < len(starts) else len(lines)
        f = '%s.chunk%d' % (path, len(chunks))
        with open(f, 'w') as o:
            o.write('\n'.join(lines[a:b]) + '\n')
        chunks.append((f, a))
    return chunks, len(lines)


def validate_chunk(module, cfg, chunk, workers=1, timeout=3600, env=None, dfs=False, xmx='3g'):
    e = {'TRACE': chunk}
    if env:
        e.update(env)
    r = tlc(module, cfg, workers=workers, env=e, timeout=timeout, dfs=dfs, xmx=xmx, tag='tv_' + module)
    if r['rc'] == -9:
        raise HarnessError('TLC timed out validating %s' % chunk)
    rejects = {}
    if r['out'].count('"REJECT"') != len(REJ.findall(r['out'])):
        raise HarnessError('could not parse every REJECT line of TLC on %s' % chunk)
    for m in REJ.finditer(r['out']):
        cl, l = int(m.group(1)), int(m.group(2))
        clauses = sorted(set(x.strip().strip('"') for x in m.group(3).split(',') if x.strip()))
        rejects.setdefault((cl, l), set()).update(clauses)
    accepted = r['rc'] == 0
    if not accepted and not r['violated'] and 'Accepted' not in r['out'] and not rejects:
        raise HarnessError('TLC failed on trace %s rc=%s\n%s' % (chunk, r['rc'], r['out'][-5000:]))
    # a violated POSTCONDITION (trace not fully consumed) or invariant is a rejection of the chunk itself
    incomplete = (r['rc'] != 0)
    diags = {}
    ndiag = 0
    for m in DIAG.finditer(r['out']):
        ndiag += 1
        for x in m.group(2).split(','):
            x = x.strip().strip('"')
            if x:
                diags[x] = diags.get(x, 0) + 1
    return {'rejects': rejects, 'generated': r['generated'], 'distinct': r['distinct'], 'incomplete': incomplete,
            'out': r['out'], 'rc': r['rc'], 'diags': diags, 'ndiag': ndiag}


def validate_trace(module, cfg, trace, nchunks=NCPU, start_event='Call', timeout=3600, env=None, dfs=False,
                   recheck=True, files=None):
    """Validate an ndjson trace against a trace specification, in parallel chunks.  Returns
    dict(rejects=[{line, call_line, clauses, event}], states, transitions, events).  A rejection is
    only believed if a second TLC run over the same chunk repeats it."""
    if files is not None:
        chunks, nlines = [(f, 0) for f in files], sum(sum(1 for _ in open(f)) for f in files)
    else:
        chunks, nlines = split_trace(trace, nchunks, start_event)
    res = {'rejects': [], 'states': 0, 'transitions': 0, 'events': nlines, 'chunks': len(chunks), 'diags': {}, 'ndiag': 0}
    if not chunks:
        return res
    with cf.ThreadPoolExecutor(max_workers=min(len(chunks), NCPU)) as ex:
        outs = list(ex.map(lambda c: validate_chunk(module, cfg, c[0], timeout=timeout, env=env, dfs=dfs), chunks))
    for (f, off), o in zip(chunks, outs):
        res['states'] += o['distinct']
        res['transitions'] += o['generated']
        res['ndiag'] += o.get('ndiag', 0)
        for k_, v_ in o.get('diags', {}).items():
            res['diags'][k_] = res['diags'].get(k_, 0) + v_
        if o['incomplete']:
            # the trace spec reports rejections by REJECT lines and always consumes the whole chunk; anything
            # else (TLC evaluation error, overflow, un-modelled event) is a machinery problem, never a verdict
            raise HarnessError('trace chunk %s not fully consumed by %s (rc=%s)\n%s' % (f, module, o['rc'], o['out'][-3000:]))
        if o['rejects'] and recheck:
            o2 = validate_chunk(module, cfg, f, timeout=timeout, env=env, dfs=dfs)
            keep = {k: v for k, v in o['rejects'].items() if k in o2['rejects']}
            o['rejects'] = keep
        if o['rejects']:
            lines = open(f).read().splitlines()
            for (cl, l), clauses in sorted(o['rejects'].items()):
                call = json.loads(lines[cl - 1]) if 0 < cl <= len(lines) else {}
                # collect the whole call (until next start event) for the replay file
                seg = [lines[cl - 1]]
                for ln in lines[cl:]:
                    if start_event is None or (start_event if '"' in start_event else ('"e":"%s"' % start_event)) in ln:
                        break
                    seg.append(ln)
                res['rejects'].append({'line': off + l, 'call_line': off + cl, 'clauses': sorted(clauses),
                                       'call': call, 'segment': seg})
    for f, _ in chunks:
        try:
            os.remove(f)
        except OSError:
            pass
    return res


# ------------------------------------------------------------------------------------------------
# known findings, violations, evidence
# ------------------------------------------------------------------------------------------------
def load_known():
    p = os.path.join(ROOT, 'known_findings.json')
    if not os.path.exists(p):
        return {'findings': [], 'fixed': []}
    return json.load(open(p))


def match_known(pid, facts):
    """facts: dict describing a violation (algo, prog, clause list, ...).  A finding matches when all
    the keys of its `match` object are equal to / contained in the facts."""
    for f in load_known().get('findings', []):
        if f.get('property') != pid:
            continue
        ok = True
        for k, v in f.get('match', {}).items():
            fv = facts.get(k)
            if isinstance(v, list):
                if fv not in v:
                    ok = False
            elif fv != v:
                ok = False
        if ok:
            return f
    return None


class Result:
    """Accumulates what a check covered and what it found; writes the evidence file."""

    def __init__(self, pid, tier, seed, level='model_checking'):
        self.pid, self.tier, self.seed, self.level = pid, tier, seed, level
        self.t0 = time.time()
        self.cov = {'states': 0, 'transitions': 0, 'traces_validated_against_impl': 0, 'samples': [],
                    'evaluations': 0, 'distinct_nontrivial': 0, 'rule': '', 'exhaustive': False,
                    'model_checks': [], 'event_counts': {}}
        self.assumptions = []
        self.violations = []      # list of (facts, replay_path)
        self.known_hits = {}
        self._replay_n = 0

    def add_mc(self, name, r, note=''):
        self.cov['states'] += r['distinct']
        self.cov['transitions'] += r['generated']
        ent = {'spec': name, 'distinct_states': r['distinct'], 'states_generated': r['generated'],
               'depth': r['depth'], 'wall_s': round(r['wall'], 1), 'note': note}
        cov = coverage_counts(r['out'])
        if cov:
            ent['action_coverage'] = {k: '%d:%d' % v for k, v in sorted(cov.items())}
        self.cov['model_checks'].append(ent)

    def add_validation(self, v, traces):
        self.cov['states'] += v['states']
        self.cov['transitions'] += v['transitions']
        self.cov['traces_validated_against_impl'] += traces

    def sample(self, s, limit=6):
        if len(self.cov['samples']) < limit:
            self.cov['samples'].append(s)

    def violation(self, facts, replay_obj):
        """Register a violation unless it is a listed known finding."""
        k = match_known(self.pid, facts)
        if k is not None:
            self.known_hits.setdefault(k['id'], [k, 0])[1] += 1
            return False
        self._replay_n += 1
        d = os.path.join(EVID, 'replay')
        os.makedirs(d, exist_ok=True)
        path = os.path.join(d, '%s-%d.json' % (self.pid, self._replay_n))
        if self._replay_n <= 20:
            with open(path, 'w') as f:
                json.dump({'property': self.pid, 'facts': facts, 'replay': replay_obj}, f, indent=1, default=str)
        self.violations.append((facts, path))
        return True

    def finish(self):
        wall = time.time() - self.t0
        for kid, (k, n) in sorted(self.known_hits.items()):
            print('KNOWN-FINDING: property=%s %s (%d occurrence(s) in this run; id=%s)' % (self.pid, k['what'], n, kid), flush=True)
        self.cov['known_findings_hit'] = {kid: n for kid, (k, n) in self.known_hits.items()}
        if not self.cov['samples']:
            self.cov['samples'].append('no sample recorded')
        ev = {'property_id': self.pid, 'tier': self.tier, 'seed': self.seed, 'level': self.level,
              'coverage': self.cov, 'assumptions': self.assumptions, 'wall_s': round(wall, 2),
              'violations': len(self.violations)}
        os.makedirs(EVID, exist_ok=True)
        evname = self.pid + ('.replay' if getattr(self, 'is_replay', False) else '') + '.json'
        with open(os.path.join(EVID, evname + '.tmp'), 'w') as f:
            json.dump(ev, f, indent=1, default=str)
        os.replace(os.path.join(EVID, evname + '.tmp'), os.path.join(EVID, evname))
        seen = set()
        for facts, path in self.violations:
            if path in seen:
                continue
            seen.add(path)
            if len(seen) <= 20:
                print('VIOLATION property=%s replay=%s  %s' % (self.pid, path, json.dumps(facts, default=str)[:300]), flush=True)
        if self.violations:
            import collections
            summ = collections.Counter()
            for facts, _ in self.violations:
                summ[(str(facts.get('algo') or facts.get('event') or facts.get('prog') or ''), str(facts.get('T') or facts.get('wt') or ''),
                      ','.join(facts.get('clauses', [])))] += 1
            for k, n in summ.most_common(12):
                print('  summary: %4d x %s' % (n, ' / '.join(k)), flush=True)
            print('%s: %d violation(s) [%s, %.1fs]' % (self.pid, len(self.violations), self.tier, wall), flush=True)
            return 1
        print('%s: OK [%s, %.1fs] states=%d traces=%d' % (self.pid, self.tier, wall, self.cov['states'],
                                                         self.cov['traces_validated_against_impl']), flush=True)
        return 0


def scratch(pid):
    d = os.path.join(BUILD, 'work', '%s_%d' % (pid, os.getpid()))
    shutil.rmtree(d, ignore_errors=True)
    os.makedirs(d)
    return d


def run_harness(exe, args, timeout=1800, env=None, cwd=None):
    e = dict(os.environ)
    if env:
        e.update({k: str(v) for k, v in env.items()})
    try:
        p = subprocess.run([exe] + list(args), stdout=subprocess.PIPE, stderr=subprocess.STDOUT, timeout=timeout,
                           env=e, cwd=cwd, text=True, errors='replace')
        return p.returncode, p.stdout
    except subprocess.TimeoutExpired:
        return -9, 'timeout'


def sanitize_trace(path):
    """A call that corrupts memory can make the recorder write an event that is not valid UTF-8 / JSON.  Such a line is
    evidence of a crash inside the call (the recorder itself never writes one on well-behaved code); it is replaced by a
    Crash event so that the trace stays machine-readable and TLC reports the crash instead of the driver failing."""
    if not os.path.exists(path):
        return 0
    raw = open(path, 'rb').read().split(b'\n')
    bad = 0
    out = []
    for ln in raw:
        if not ln.strip():
            continue
        try:
            txt = ln.decode('utf-8')
            o = json.loads(txt)
            if not isinstance(o, dict) or 'e' not in o:
                raise ValueError('not an event')
            out.append(txt)
        except Exception:
            bad += 1
            prefix = ''.join(chr(c) if 32 <= c < 127 and c not in (34, 92) else '?' for c in ln[:200])
            o = {'e': 'Crash', 'what': 'recorder wrote an unparsable event (memory corrupted during the call)', 'raw': prefix}
            out.append(json.dumps(o, separators=(',', ':')))
    if bad:
        with open(path, 'w') as f:
            f.write('\n'.join(out) + '\n')
    return bad


def run_recorder(exe, infile, outfile, extra=(), nitems=None, timeout=1800):
    """Run a recorder harness over an input file; restart after a fatal signal at the next item so
    that a crash is one Crash event, not a truncated trace."""
    start = 0
    guard = 0
    while True:
        rc, out = run_harness(exe, ['--in', infile, '--out', outfile, '--start', str(start)] + list(extra), timeout=timeout)
        sanitize_trace(outfile)
        if rc == 0:
            return
        if rc in (3, 4):  # crash / per-call timeout captured by the harness: continue after that item
            last = None
            with open(outfile) as f:
                for ln in f:
                    if '"e":"Crash"' in ln and '"item"' in ln:
                        last = json.loads(ln)
            if last is None:
                raise HarnessError('harness %s died (rc=%s) without a Crash event: %s' % (exe, rc, out[-2000:]))
            start = int(last['item']) + 1
            guard += 1
            if guard > 50:
                return
            continue
        raise HarnessError('harness %s failed rc=%s: %s' % (exe, rc, out[-3000:]))


def parallel_record(exe, items_lines, workdir, name, extra=(), nproc=NCPU, timeout=1800):
    """Split input lines over nproc recorder processes; returns the concatenated trace path."""
    nproc = max(1, min(nproc, len(items_lines)))
    parts = []
    for i in range(nproc):
        sub = items_lines[i::nproc]
        fin = os.path.join(workdir, '%s.in%d' % (name, i))
        with open(fin, 'w') as f:
            f.write('\n'.join(sub) + '\n')
        parts.append((fin, os.path.join(workdir, '%s.tr%d' % (name, i))))
    with cf.ThreadPoolExecutor(max_workers=nproc) as ex:
        list(ex.map(lambda p: run_recorder(exe, p[0], p[1], extra=extra, timeout=timeout), parts))
    out = os.path.join(workdir, name + '.ndjson')
    with open(out, 'w') as o:
        for _, tr in parts:
            if os.path.exists(tr):
                with open(tr) as f:
                    shutil.copyfileobj(f, o)
    return out


def graph_line(gid, n, edges, den=1, extra=()):
    return 'G %d %d %d %d %s' % (gid, n, len(edges), den, ' '.join('%d %d %d' % tuple(e) for e in edges)) + \
        ((' ' + ' '.join(str(x) for x in extra)) if extra else '')


def count_events(path):
    c = {}
    with open(path) as f:
        for ln in f:
            m = re.search(r'"e":"(\w+)"', ln)
            if m:
                c[m.group(1)] = c.get(m.group(1), 0) + 1
    return c


def validate_branching(module, cfg, trace, nchunks=NCPU, start_event='Call', timeout=1800):
    """Trace validation for trace specs in which TLC has to infer unlogged variables (branching search, depth-first
    queue).  The spec's invariant NotDone (l <= Len(Tr)) is VIOLATED exactly when some branch consumed the whole chunk.
    When no branch does, the deepest line reached identifies the call that could not be explained; it is recorded and
    validation resumes after that call.  Returns dict(anomalies=[call json], states, calls)."""
    chunks, nlines = split_trace(trace, nchunks, start_event)
    out = {'anomalies': [], 'states': 0, 'transitions': 0, 'calls': 0}

    def work(chunk):
        path = chunk[0]
        lines = open(path).read().splitlines()
        anomalies = []
        states = trans = 0
        calls = sum(1 for ln in lines if ('"e":"%s"' % start_event) in ln)
        guard = 0
        while lines and guard < 50:
            guard += 1
            with open(path, 'w') as f:
                f.write('\n'.join(lines) + '\n')
            r = tlc(module, cfg, workers=1, env={'TRACE': path}, timeout=timeout, dfs=True, xmx='3g', tag='tb_' + module)
            if r['rc'] == -9:
                raise HarnessError('TLC timed out on %s' % path)
            states += r['distinct']
            trans += r['generated']
            if r['violated'] and 'NotDone' in r['out']:
                break                                   # accepted
            if r['rc'] != 0:
                raise HarnessError('TLC failed on branching trace %s rc=%s\n%s' % (path, r['rc'], r['out'][-2000:]))
            depth = r['depth']                          # states along the longest branch = consumed lines + 1
            consumed = max(0, depth - 1)
            # the call that contains line `consumed + 1` (1-based) is unexplained
            idx = min(consumed, len(lines) - 1)
            start = idx
            while start > 0 and ('"e":"%s"' % start_event) not in lines[start]:
                start -= 1
            end = idx + 1
            while end < len(lines) and ('"e":"%s"' % start_event) not in lines[end]:
                end += 1
            anomalies.append({'call': json.loads(lines[start]), 'segment': lines[start:end], 'stuck_at_event': idx - start})
            lines = lines[end:]
        try:
            os.remove(path)
        except OSError:
            pass
        return anomalies, states, trans, calls
    with cf.ThreadPoolExecutor(max_workers=min(max(1, len(chunks)), NCPU)) as ex:
        for a, s, t, c in ex.map(work, chunks):
            out['anomalies'] += a
            out['states'] += s
            out['transitions'] += t
            out['calls'] += c
    return out


def tlaps(module, timeout=900):
    """Check a TLAPS proof module with tlapm in a scratch directory; returns (obligations, proved).  A proof that does
    not go through is a problem of the specification, reported as HarnessError."""
    d = os.path.join(BUILD, 'tlaps_%d' % os.getpid())
    shutil.rmtree(d, ignore_errors=True)
    os.makedirs(d)
    try:
        shutil.copy(os.path.join(SPEC, module + '.tla'), d)
        # own process group: tlapm's back-end provers sometimes outlive it
        import signal
        pr = subprocess.Popen(['tlapm', '--stretch', '6', '--toolbox', '0', '0', module + '.tla'], stdout=subprocess.PIPE, stderr=subprocess.STDOUT,
                              cwd=d, text=True, errors='replace', start_new_session=True)
        try:
            out, _ = pr.communicate(timeout=timeout)
        except subprocess.TimeoutExpired:
            out = ''
        finally:
            try:
                os.killpg(pr.pid, signal.SIGKILL)
            except OSError:
                pass
        m = re.search(r'All (\d+) obligations? proved', out or '')
        if not m:
            raise HarnessError('tlapm did not prove %s:\n%s' % (module, (out or '')[-2000:]))
        n = int(m.group(1))
        return n, n
    finally:
        shutil.rmtree(d, ignore_errors=True)


def sample_call(trace, start_events=('Call',), min_len=4, max_lines=20000, max_events=10):
    """a representative segment (one call with its Emit/Return events) for the evidence: the first one with >= min_len events"""
    cur, best = [], []
    with open(trace) as f:
        for k, ln in enumerate(f):
            if k > max_lines:
                break
            try:
                e = json.loads(ln)
            except ValueError:
                continue
            if e.get('e') in start_events:
                if len(cur) >= min_len:
                    return cur[:max_events]
                if len(cur) > len(best):
                    best = cur
                cur = [e]
            else:
                cur.append(e)
    return (cur if len(cur) >= len(best) else best)[:max_events]
