"""C05 C06 C15: approximate entry points and the intermediate spanner."""
import json, os, random, shutil
import vlib, gens
from p_comp import canon


def harness():
    return vlib.build('h_approx', [os.path.join(vlib.HARNESS, 'h_approx.cpp')])


C05 = {"empty-cycle", "duplicate-edge", "foreign-edge", "not-simple-cycle", "dependent", "too-many-cycles", "wrong-count",
       "ret-ne-emitted-weight", "lighter-than-optimum", "threw-on-valid-input", "crash", "bad-input"}
C06 = {"exceeds-(2k-1)-optimum", "k1-not-minimum", "k0-not-rejected", "k0-emitted-something", "crash", "bad-input"}


def mc_spanner(res, tier):
    r = vlib.tlc_ok('Spanner', 'MC_Spanner_q.cfg' if tier == 'quick' else 'MC_Spanner_t.cfg', extra=['-coverage', '1'], timeout=3000)
    if r['violated']:
        raise vlib.HarnessError('MC_Spanner violated\n' + r['out'][-3000:])
    res.add_mc('Spanner.tla: greedy spanner under EVERY scan order among equal weights satisfies the C15 clauses; any MCB of the spanner + '
               'one closing shortest path per dropped edge has dimension dim(G) and weight <= (2k-1) Opt (= Opt for k=1)', r)


def mc_hopbfs(res, tier):
    r = vlib.tlc_ok('HopBfs', 'MC_HopBfs_q.cfg' if tier == 'quick' else 'MC_HopBfs_t.cfg', extra=['-coverage', '1'], timeout=3000)
    if r['violated']:
        raise vlib.HarnessError('MC_HopBfs violated\n' + r['out'][-3000:])
    res.add_mc('HopBfs.tla: is_bfs_reachable step by step (pop; hop test; target test; push unvisited neighbours in EVERY adjacency order) answers '
               'HopDist(s,t) <= max_hops and terminates, every simple graph n<=%d, every s, t, bound' % (4 if tier == 'quick' else 5), r)


def mc_dijkstra(res, tier):
    r = vlib.tlc_ok('Dijkstra', 'MC_Dijkstra_q.cfg' if tier == 'quick' else 'MC_Dijkstra_t.cfg', extra=['-coverage', '1'], timeout=3000)
    if r['violated']:
        raise vlib.HarnessError('MC_Dijkstra violated\n' + r['out'][-3000:])
    res.add_mc('Dijkstra.tla: detail/dijkstra.hpp step by step (pop ANY minimum, relax out-edges in ANY order, source protected by the w == s test): '
               'final distances exact, reached = reachable, every predecessor edge tight, terminates', r)


def approx_inputs(rng, tier, wd):
    N = 4
    gs, _ = gens.tlc_graphs(wd, N, [1, 2])
    inputs = [(g, 1) for g in gs]
    fam = [gens.petersen(), gens.cycle(5), gens.union(gens.cycle(5), gens.cycle(7)), gens.hypercube(3), gens.grid(3, 3), gens.complete(5),
           gens.complete(6), gens.bipartite(3, 3), gens.wheel(6), gens.with_pendant(rng, gens.petersen(), 3), gens.ladder(5)]
    if tier != 'quick':
        fam += [gens.hypercube(4), gens.grid(4, 4), gens.complete(7), gens.bipartite(4, 4), gens.union(gens.petersen(), gens.cycle(6))]
    for g in fam:
        inputs.append((g, 1))
        inputs.append((gens.reweight(rng, g, [1, 2, 3]), 1))
        inputs.append((gens.permuted(rng, gens.reweight(rng, g, [1, 2, 3, 4, 5, 6, 7, 8, 9])), 1))
    # adversarial structures for the ratio: one very heavy edge shared by the detours of many light chords
    for pcount in (4, 5, 6):
        for plen in (1, 2):
            base = gens.petals(pcount, heavy=1000, chord=plen + 1, plen=plen)
            inputs.append((base, 1))
            for _ in range(3 if tier == 'quick' else 12):
                inputs.append((gens.permuted(rng, base), 1))
    # the same idea with FRACTIONAL weights closer than 1 to each other (den 1000): a scan order that is not by
    # non-decreasing weight drops light edges behind the heavy one
    for n_, hv, lt in ((4, 990, 1), (6, 990, 1), (8, 750, 10), (12, 750, 10), (6, 500, 300)):
        base = gens.theta(n_, hv, lt)
        inputs.append((base, 1000))
        for _ in range(2 if tier == 'quick' else 8):
            inputs.append((gens.permuted(rng, base), 1000))
    for g in gens.random_graphs(rng, 60 if tier == 'quick' else 1500, 7, 11, 18, [[1, 1, 1, 2, 2, 3]]):
        inputs.append((gens.heavy_spiked(rng, g, rng.randint(1, 2), rng.choice([200, 1000])), 1))
    nr = 250 if tier == 'quick' else 4000
    for g in gens.random_graphs(rng, nr, 4, 9, 16, [[1], [1, 2], [1, 2, 3], list(range(1, 10)), list(range(1, 60))]):
        inputs.append((g, 1))
    for g in gens.random_graphs(rng, nr // 5, 4, 8, 14, [[1, 2, 3, 5, 6, 7]]):
        inputs.append((g, 4))
    return inputs, len(gs), N


def run(res, tier, seed, replay, clauses, spanner=False, ks='1,2,3', algos='approx_signed,approx_fvs,approx_iso'):
    rng = random.Random(seed)
    wd = vlib.scratch(res.pid)
    try:
        exe = harness()
        if replay:
            obj = json.load(open(replay))
            call = json.loads(obj['replay']['trace_segment'][0])
            inputs = [({'n': call['n'], 'edges': [tuple(e) for e in call['edges']]}, call.get('den', 1))]
            ks = str(call['k'])
            if 'algo' in call:
                algos = call['algo']
            ne, N = 0, 0
        else:
            inputs, ne, N = approx_inputs(rng, tier, wd)
            res.cov['exhaustive_space'] = 'all simple labelled graphs with <= %d vertices, weights {1,2} (TLC-enumerated): %d, each with k in {%s}' % (N, ne, ks)
        lines = [vlib.graph_line(i, g['n'], g['edges'], den) for i, (g, den) in enumerate(inputs)]
        extra = ['--ks', ks, '--types', 'double,int', '--algos', algos] + (['--spanner'] if spanner else [])
        trace = vlib.parallel_record(exe, lines, wd, 'approx', extra=extra)
        ev = vlib.count_events(trace)
        res.cov['event_counts'] = ev
        v = vlib.validate_trace('Trace_Approx', 'Trace_Approx.cfg', trace, start_event=('Spanner' if spanner else 'Call'))
        n = ev.get('Spanner', 0) if spanner else ev.get('Call', 0)
        res.add_validation(v, n)
        res.cov['evaluations'] = n
        for rj in v['rejects']:
            mine = sorted(set(rj['clauses']) & clauses) if clauses else rj['clauses']
            if not mine:
                continue
            call = rj['call']
            facts = {'algo': call.get('algo', 'spanner'), 'wt': call.get('wt'), 'k': call.get('k'), 'clauses': mine, 'n': call.get('n'),
                     'edges': call.get('edges'), 'den': call.get('den')}
            res.violation(facts, {'trace_segment': rj['segment'], 'spec': 'Trace_Approx'})
        if spanner:
            # vacuity counter (not a verdict): how many observed spanners still contain a cycle / dropped something
            cyc = drop = 0
            with open(trace) as f:
                for ln in f:
                    if '"e":"Spanner"' not in ln:
                        continue
                    o = json.loads(ln)
                    kept = [(k[1], k[2], 1) for k in o['kept']]
                    if gens.csd({'n': o['n'], 'edges': kept}) > 0:
                        cyc += 1
                    if o['dropped']:
                        drop += 1
            res.cov['spanners_with_cycles'] = cyc
            res.cov['spanners_with_dropped_edges'] = drop
        res.sample(vlib.sample_call(trace, start_events=('Call', 'Spanner'), min_len=(1 if spanner else 4)) if not spanner else [e for e in vlib.sample_call(trace, start_events=('Spanner',), min_len=1, max_lines=400)][-1:])
        return inputs, trace
    finally:
        shutil.rmtree(wd, ignore_errors=True)


def check_C15(res, tier, seed, replay):
    res.assumptions += ['the spanner is observed through the PARMCB_VERIF read-only accessors (hook commit in /repo)',
                        'std::sort tie order cannot be forced in the real code: every scan order is covered on the model (MC_Spanner)']
    if not replay:
        mc_spanner(res, tier)
        mc_hopbfs(res, tier)
    inputs, _ = run(res, tier, seed, replay, None, spanner=True, ks='1,2,3,4' if tier == 'quick' else '1,2,3,4,5')
    res.cov['distinct_nontrivial'] = len({canon(g) for g, _ in inputs if gens.csd(g) >= 1})
    res.cov['rule'] = 'spanner built for every input and k; non-trivial = distinct graph with at least one cycle (some edge can be dropped for large k)'


def check_C05(res, tier, seed, replay):
    res.assumptions += ['edge descriptors are projected to caller edge indices by property-node address AFTER the call returned; a descriptor of another graph maps to 0 (foreign-edge)']
    if not replay:
        mc_spanner(res, tier)
        mc_dijkstra(res, tier)
    inputs, _ = run(res, tier, seed, replay, C05, ks='1,2,3,4')
    res.cov['distinct_nontrivial'] = len({canon(g) for g, _ in inputs if gens.csd(g) >= 2})
    res.cov['rule'] = 'each input x k in 1..4 x three approximate entry points x double/int; non-trivial = distinct graph with cycle-space dimension >= 2'


def check_C06(res, tier, seed, replay):
    if not replay:
        mc_spanner(res, tier)
        mc_hopbfs(res, tier)
        mc_dijkstra(res, tier)
    inputs, _ = run(res, tier, seed, replay, C06, ks='0,1,2,3,4')
    res.cov['distinct_nontrivial'] = len({canon(g) for g, _ in inputs if gens.csd(g) >= 2})
    res.cov['rule'] = 'each input x k in 0..4 x three approximate entry points x double/int; non-trivial = distinct graph with cycle-space dimension >= 2'


REGISTRY = {'C15': check_C15, 'C05': check_C05, 'C06': check_C06}
