#!/bin/bash
# try_seed.sh <seed-dir-name> <property> [tier]  : apply the seeded patch to /repo, run the check, undo.
SD=/verif/seeded/$1; P=$2; T=${3:-quick}
git -C /repo apply $SD/patch.diff || { echo "patch failed"; exit 2; }
cd /verif && bin/check $P --tier $T 2>&1 | grep -v "^\[build\]" | cut -c1-400 | tail -${LINES_OUT:-6}
git -C /repo checkout -- . ; git -C /repo status --short | grep -v _build
