#!/bin/bash
# try_seed.sh <seed-dir-name> <property> [tier] : run a check against a scratch worktree of /repo with the seeded patch
# applied (VERIF_REPO), evidence redirected; /repo itself is never touched, so background runs against /repo stay valid.
SD=/verif/seeded/$1; P=$2; T=${3:-quick}; WT=/tmp/ts/$1.$$
mkdir -p /tmp/ts; git -C /repo worktree add --detach $WT HEAD >/dev/null 2>&1 || { echo "worktree failed"; exit 2; }
git -C $WT apply $SD/patch.diff || { echo "patch failed"; git -C /repo worktree remove --force $WT; exit 2; }
cd /verif && VERIF_REPO=$WT VERIF_EVIDENCE_DIR=/tmp/ts/ev.$$ bin/check $P --tier $T 2>&1 | grep -v "^\[build\]" | cut -c1-400 | tail -${LINES_OUT:-6}
git -C /repo worktree remove --force $WT; rm -rf /tmp/ts/ev.$$
