#!/bin/bash
# confirm_seed.sh <seed-dir>   e.g. /verif/seeded/C02-1
# Confirms in a scratch worktree (removed afterwards): the patch applies, everything builds, the 20 baseline
# tests pass with it, the demonstration fails with it and passes without it.  Writes <seed-dir>/confirm.log
set -u
SD=$1; NAME=$(basename $SD); WT=/tmp/cs/$NAME
LOG=$SD/confirm.log; : > $LOG
mkdir -p /tmp/cs; git -C /repo worktree remove --force $WT >/dev/null 2>&1; rm -rf $WT
git -C /repo worktree add --detach $WT HEAD >>$LOG 2>&1 || { echo "CONFIRM $NAME: worktree failed"; exit 2; }
cd $WT
res() { echo "CONFIRM $NAME: $*" | tee -a $LOG; }
cleanup() { cd /; git -C /repo worktree remove --force $WT >/dev/null 2>&1; rm -rf $WT; }
git apply $SD/patch.diff >>$LOG 2>&1 || { res "patch does not apply to HEAD"; cleanup; exit 1; }
(cmake -G Ninja -S . -B _build -DCMAKE_BUILD_TYPE=RelWithDebInfo && cmake --build _build -j8) >>$LOG 2>&1 || { res "build failed with patch"; cleanup; exit 1; }
ctest --test-dir _build -j8 >>$LOG 2>&1 || { res "baseline tests FAIL with patch"; cleanup; exit 1; }
# run each doctest binary to count test cases
TC=0; for t in _build/test_*; do [ -x $t ] && n=$($t 2>/dev/null | sed -n 's/.*test cases: *\([0-9]*\) | *\([0-9]*\) passed.*/\2/p' | tail -1) && TC=$((TC + ${n:-0})); done
rundemo() {
  if [ -f $SD/demo.cpp ] && [ ! -f $SD/demo.sh ]; then
    if grep -q "boost/mpi\|mpi.h" $SD/demo.cpp; then
      mpicxx -std=c++14 -O1 -w -DPARMCB_VERIF -I$WT/include -I$WT/_build/include $SD/demo.cpp -o $WT/_demo -ltbb -lboost_timer -lboost_mpi -lboost_serialization >>$LOG 2>&1 || return 99
      NP=$(sed -n 's/.*-n \([0-9]*\).*/\1/p' $SD/demo.cpp | head -1); NP=${NP:-2}
      timeout 600 mpiexec --allow-run-as-root --oversubscribe -n $NP $WT/_demo >>$LOG 2>&1
    else
      g++ -std=c++14 -O1 -w -DPARMCB_VERIF $(cat $SD/cxxflags 2>/dev/null) -I$WT/include -I$WT/_build/include $SD/demo.cpp -o $WT/_demo -ltbb -lboost_timer -lboost_program_options -lboost_thread >>$LOG 2>&1 || return 99
      (cd $WT && WT=$WT timeout 900 ./_demo) >>$LOG 2>&1
    fi
  else
    (cd $WT && WT=$WT timeout 900 bash $SD/demo.sh $WT) >>$LOG 2>&1
  fi
}
rundemo; A=$?
git apply -R $SD/patch.diff >>$LOG 2>&1
(cmake --build _build -j8) >>$LOG 2>&1    # programs under _build may be what the demonstration runs
rundemo; B=$?
cleanup
if [ $A -ne 0 ] && [ $A -ne 99 ] && [ $B -eq 0 ]; then res "CONFIRMED tests_pass=$TC demo_with_patch=exit$A demo_without=exit$B"; exit 0; fi
res "NOT confirmed demo_with_patch=exit$A demo_without=exit$B tests=$TC"; exit 1
