#!/usr/bin/env python3
"""Print the prompt handed to a seeding sub-agent for one property (only the property text + its worktree)."""
import json, sys
pid, wt = sys.argv[1], sys.argv[2]
extra = sys.argv[3] if len(sys.argv) > 3 else ""
for l in open('/verif/properties.jsonl'):
    p = json.loads(l)
    if p['id'] == pid:
        break
print(f"""You are helping to evaluate a verification effort for the open-source C++14 header-only library d-michail/parmcb
(minimum cycle bases of weighted undirected graphs; sequential, TBB and MPI variants). You work ONLY inside your own scratch
git worktree of the repository: {wt}  (do not touch /repo or /verif, do not read /verif).

Property {p['id']}: {p['title']}
Statement: {p['statement']}
Quantified over: {p['quantifier']['text']}
Code it is anchored in: {', '.join(p['anchors']['files'])}

Task: produce ONE realistic change to the library (a plausible bug a maintainer could introduce: an off-by-one, a wrong comparison,
a dropped tie-break, a wrong index, an "optimisation" that is not valid, a refactoring slip, ...) that BREAKS this property while
 (a) everything still compiles, and
 (b) the existing test suite still passes:  cd {wt} && cmake -G Ninja -S . -B _build -DCMAKE_BUILD_TYPE=RelWithDebInfo >/dev/null && cmake --build _build -j6 && ctest --test-dir _build -j6
     (all 7 test executables / 20 test cases must pass with your change).
The change must need something SPECIFIC to manifest - a particular kind of input (ties, a particular graph shape, a disconnected
graph, a particular size), a particular schedule/interleaving or rank count, a multi-step sequence of operations, or two
cooperating sites that each look fine alone - NOT something ordinary use would expose at once (a change that makes every call
wrong is useless). Prefer a change in the library headers under include/parmcb (or src/ when the property is about the demo programs).
{extra}
Deliverables, all written under {wt}/_seed/ :
  1. patch.diff      - `git diff` of your change against HEAD (library change only; do not include the demonstration or _seed).
  2. demo.cpp (or demo.sh) - a small stand-alone demonstration that FAILS (non-zero exit, with a message) with the change applied and
                       PASSES (exit 0) on the unmodified tree. Give the exact compile/run command in a comment at the top. A working
                       compile line for this sandbox is:
                       g++ -std=c++14 -O1 -I{wt}/include -I{wt}/_build/include demo.cpp -o demo -ltbb -lboost_timer
                       (MPI programs: mpicxx ... -lboost_mpi -lboost_serialization, run with mpiexec --allow-run-as-root --oversubscribe -n P).
                       The demonstration should check the property itself (e.g. compare against a brute-force computation), not a
                       golden value that merely differs.
  3. meta.json       - {{"property": "{p['id']}", "summary": "...", "needs_to_manifest": "...", "files_changed": [...],
                        "tests_pass_with_change": true, "demo_fails_with_change": true, "demo_passes_without_change": true, "commands_run": [...]}}
Verify (a), (b) and the demonstration both ways yourself (use `git stash` or `git apply -R` to test the unmodified tree), then leave the
worktree with the change APPLIED and report briefly what you did. The sandbox has no network. Keep it to one change; do not
commit anything. Be economical: build only what you need after the first full build (e.g. `cmake --build _build -j6`).""")
