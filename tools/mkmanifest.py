#!/usr/bin/env python3
"""Regenerates /verif/MANIFEST.json from the table below (single source of truth for the interface)."""
import json, os
ROOT = os.path.dirname(os.path.dirname(os.path.abspath(__file__)))
ids = [json.loads(l)['id'] for l in open(os.path.join(ROOT, 'properties.jsonl'))]
MC = 'model_checking'
TB = 'TLC 1.8 + CommunityModules; the TLA+ oracles in spec/ (cross-validated by MC_CycleSpace); harness projection of C++ objects to ndjson (harness/common.hpp); '
CLAIMS = {
 'C01': dict(level=MC, design='5 (C01/C02)', tech='TLA+ spec Mcb.tla + TLC trace validation of recorded Call/Emit/Return behaviours; TLC-enumerated input space',
   text='Every recorded call of the three sequential exact entry points (double and int weights) on all TLC-enumerated simple graphs up to the bound, plus seeded random, dense and structured tie-heavy graphs, is validated by TLC against Mcb.tla: Emit is enabled only for a non-empty, duplicate-free simple cycle of the caller\'s graph that is GF(2)-independent of the cycles already emitted, Return only when exactly m-n+c cycles were emitted. Exhaustive inside the bound, sampled beyond it.',
   note=TB + 'weights are small integers/dyadics so that sums are exact; universality over inputs is only exhaustive within the stated bound'),
 'C02': dict(level=MC, design='5 (C01/C02)', tech='TLA+ spec Mcb.tla (Return action: ret = emitted weight = Opt) + TLC trace validation; oracles OptBrute/OptHorton evaluated by TLC',
   text='Same recorded behaviours as C01; TLC enables Return(r) only if r equals the weight of the emitted cycles, that weight equals the optimum computed in TLA+ (matroid greedy over the whole cycle space for m<=12, Horton candidates + XOR basis beyond) and the sorted weight vector equals the optimum one. The two oracles are proved equal to each other and to an exhaustive search over all bases by TLC on all graphs up to the bound.',
   note=TB + 'exact-arithmetic domain only (C09 covers inexact weights)'),
}
NA = {
 'C07': 'memory safety / undefined behaviour is not a property of an abstract state machine: a TLA+ specification cannot observe out-of-bounds or uninitialised accesses and the guidance for this technique family names memory safety as out of reach; switching to sanitizers would be a different technique (DESIGN.md section 6). The returned-handle lifetime clause is checked under C05.',
}
checks = []
for i in ids:
    if i in CLAIMS:
        c = CLAIMS[i]
        checks.append({'property_id': i, 'quick_cmd': 'bin/check %s --tier quick' % i, 'thorough_cmd': 'bin/check %s --tier thorough' % i,
                       'evidence_file': 'evidence/%s.json' % i, 'replay_cmd_template': 'bin/check %s --replay {path}' % i,
                       'engine': 'tlc', 'level_claimed': {'category': c['level'], 'text': c['text'], 'design_ref': 'DESIGN.md section ' + c['design']},
                       'level_note': c['note'], 'technique': c['tech']})
na = [{'property_id': i, 'reason': NA.get(i, 'check not built yet (work in progress; see DESIGN.md section 10)')} for i in ids if i not in CLAIMS]
hooks = json.load(open(os.path.join(ROOT, 'hooks.json'))) if os.path.exists(os.path.join(ROOT, 'hooks.json')) else []
m = {'version': 1, 'setup_cmd': 'bin/check --setup',
     'hooks': {'guard': 'PARMCB_VERIF', 'enable': 'bin/check compiles every harness with -DPARMCB_VERIF against /repo/include (lib/vlib.py BASEFLAGS); the CMake build of the repository never defines it',
               'baseline_off_cmd': 'bin/baseline_off', 'source_commits': hooks, 'add_only': True},
     'engines': [{'name': 'tlc', 'path': 'spec/', 'serves_properties': sorted(CLAIMS), 'kind_free_text': 'explicit TLA+ specifications checked by TLC 1.8 (exhaustive model checking of design models, TLC-generated behaviours replayed into the code, recorded ndjson traces validated against trace specifications)'}],
     'checks': checks, 'notes': 'bin/check <id> rebuilds its harness from the current /repo working tree (content-addressed cache in .build/). Exit 3 = machinery error, never a verdict.',
     'not_applicable': na}
json.dump(m, open(os.path.join(ROOT, 'MANIFEST.json'), 'w'), indent=1)
print('claimed:', sorted(CLAIMS), 'n/a:', [x['property_id'] for x in na])
