#!/usr/bin/env python3
"""Regenerates /verif/MANIFEST.json from the table below (single source of truth for the interface)."""
import json, os
ROOT = os.path.dirname(os.path.dirname(os.path.abspath(__file__)))
ids = [json.loads(l)['id'] for l in open(os.path.join(ROOT, 'properties.jsonl'))]
MC = 'model_checking'
TB = 'TLC 1.8 + CommunityModules; the TLA+ oracles in spec/ (cross-validated by MC_CycleSpace); harness projection of C++ objects to ndjson (harness/common.hpp); '
CLAIMS = {
 'C01': dict(level=MC, design='5 (C01/C02)', tech='TLA+ spec Mcb.tla + TLC trace validation of recorded Call/Emit/Return behaviours; TLC-enumerated input space',
   text='Every recorded call of the three sequential exact entry points (double and int weights) on all TLC-enumerated simple graphs up to the bound, plus seeded random, dense and structured tie-heavy graphs, is validated by TLC against Mcb.tla: Emit is enabled only for a non-empty, duplicate-free simple cycle of the caller\'s graph that is GF(2)-independent of the cycles already emitted, Return only when exactly m-n+c cycles were emitted. Exhaustive inside the bound, sampled beyond it.',
   note=TB + 'weights are small integers/dyadics so that sums are exact; universality over inputs is only exhaustive within the stated bound'),
 'C02': dict(level=MC, design='5 (C01/C02)', tech='TLA+ spec Mcb.tla (Return action: ret = emitted weight = Opt) + TLC trace validation; oracles OptBrute/OptHorton evaluated by TLC',
   text='Same recorded behaviours as C01; TLC enables Return(r) only if r equals the weight of the emitted cycles, that weight equals the optimum computed in TLA+ (matroid greedy over the whole cycle space for m<=12, Horton candidates + XOR basis beyond) and the sorted weight vector equals the optimum one. The two oracles are proved equal to each other and to an exhaustive search over all bases by TLC on all graphs up to the bound.',
   note=TB + 'exact-arithmetic domain only (C09 covers inexact weights)'),

 'C12': dict(level=MC, design='5 (C12)', tech='TLA+ spec Components.tla (SptViol) + TLC trace validation of dumped shortest-path trees',
   text='For every TLC-enumerated graph up to the bound (weights {1,2}: the tie-heavy ones), permuted grids/hypercubes/K_{a,b}/cycles and seeded random unit- and small-weight graphs, the SPTree rooted at every vertex is dumped (distance, predecessor edge, first) and TLC checks against distances it computes itself (Floyd-Warshall in TLA+): node iff reachable, exact distances, predecessor edges are tight edges towards the root, first = child of the root on the path, tree path u->v = reverse of v->u, every suffix of a chosen path is the chosen path of its start vertex.',
   note=TB + 'the property does not prescribe which shortest path is chosen and neither does the spec; heap tie order cannot be forced in the code'),
 'C13': dict(level=MC, design='5 (C13)', tech='TLA+ model Fvs.tla model-checked against Components!FvsViol + TLC trace validation of greedy_fvs outputs',
   text='Fvs.tla models detail/fvs.hpp step by step (degree bookkeeping, LIFO clean-up with repeated pushes, pop of ANY maximum-degree vertex, stale heap entries); TLC checks for all graphs up to the bound and every pop order that the result is a feedback vertex set and that the degree bookkeeping invariant holds. The real greedy_fvs is run on all TLC-enumerated graphs plus random graphs with pendant trees/extra components and each output is validated by TLC (vertices valid and distinct, G - out acyclic, forest => empty).',
   note=TB + 'pairing-heap tie order is explored on the model only'),
 'C14': dict(level=MC, design='5 (C14)', tech='TLA+ spec Components.tla (CollViol) + TLC trace validation of the three candidate collections',
   text='The Horton, FVS and ISO builders are run on the exhaustive small space, tie-heavy families and random graphs; the event carries the trees and candidates. TLC checks each candidate (two root paths meeting only in the root + non-tree edge = simple cycle through the root, recorded weight = true weight), FVS and ISO are sub-collections of Horton as (root, edge) pairs, and greedy-by-weight with GF(2) independence over each collection reaches the optimum weight and dimension computed by the TLA+ oracle.',
   note=TB + 'sufficiency is judged against Opt(g) of CycleSpace.tla'),
 'C16': dict(level=MC, design='5 (C16)', tech='TLA+ model ForestIndex.tla model-checked against Components!ForestViol + TLC trace validation of ForestIndex dumps',
   text='ForestIndex.tla models spanning_forest (BFS from ANY unreached vertex, out-edges in insertion order) and the two-counter numbering; TLC checks for all graphs up to the bound and every root order that the result satisfies the abstract index specification. The real ForestIndex is dumped on all graphs with <= 5 vertices in two insertion orders, random graphs with many components, empty and edgeless graphs, and TLC checks bijection, inverse lookups, component count, dimension, off-forest <=> index < dimension, spanning forest, and copy semantics.',
   note=TB + 'unordered_set iteration order is explored on the model only'),
 'C17': dict(level=MC, design='5 (C17)', tech='TLA+ register machine SpVecGF2.tla; TLC-generated (state,operation) transitions replayed on real objects; TLC trace validation of every step',
   text='SpVecGF2.tla gives every public operation its GF(2) meaning on dense vectors; SpVecGF2Merge.tla models the two-pointer loops and is model-checked against it for all pairs. TLC enumerates every (register state, operation) transition for R=3, D=3 (73 728) including all aliasing patterns (v += v, r = r + r, self-assignment, moves); each is executed on real SpVecGF2<size_t> objects and the projected state of ALL registers (iteration order, size(), product) is validated by TLC after the step; plus seeded random histories of length 40 over dimensions up to 64.',
   note=TB + 'moved-from objects are re-initialised by the harness; add() is not in the property'),
 'C18': dict(level=MC, design='5 (C18)', tech='TLA+ specs FpArith.tla / ExtGcd.tla (loop model, model-checked) + TLC trace validation of recorded calls and SpVecFP histories',
   text='ExtGcd.tla models the ext_gcd loop (one action per iteration) and TLC proves the Bezout loop invariant and the postcondition for all pairs in -K..K. Recorded calls: ext_gcd on all pairs of a small range and random pairs, get_mult_inverse for all residues and moduli up to a bound (inverse iff gcd = 1, otherwise any exception), is_prime on a range and random values, for int, long and cpp_int; SpVecFP random histories (unit assignment, +, +=, scalar * with negative and multiple-of-p scalars, dot, copy, clear) are validated step by step against dense arithmetic modulo p evaluated by TLC.',
   note=TB + 'operands < 2^15 so that TLC evaluates products exactly in 32-bit integers'),

 'C05': dict(level=MC, design='5 (C05/C06/C15)', tech='TLA+ spec Approx.tla (extends Mcb.tla) + TLC trace validation of recorded approximate calls; Spanner.tla model-checked',
   text='Every recorded call of approx_mcb_sva_signed / fvs_trees / iso_trees (double and int weights, k = 1..4) on the TLC-enumerated small space, girth-rich families (cyclic spanners: Petersen, C5/C7, hypercubes) and random graphs is validated by TLC against Approx.tla: each emitted cycle, projected to the caller\'s edge indices AFTER the call has returned, must be a simple cycle of the caller\'s graph (a descriptor of any other graph maps to index 0 = foreign-edge) independent of the previous ones; Return requires m-n+c cycles and ret = their weight under the caller\'s weights.',
   note=TB + 'projection by property-node address; the design half (spanner MCB + closing paths is a basis within the bound for every scan order) is model-checked in Spanner.tla'),
 'C06': dict(level=MC, design='5 (C05/C06/C15)', tech='TLA+ spec Approx.tla Return guard ret <= (2k-1) Opt, = Opt for k = 1, k = 0 rejected; TLC trace validation; Spanner.tla ApproxBound invariant model-checked',
   text='Same recorded calls with k = 0..4: TLC enables Return only if the emitted weight is at most (2k-1) times the optimum computed in TLA+ and equal to it for k = 1; for k = 0 only Threw with nothing emitted is accepted. Spanner.tla proves by exhaustive model checking (all graphs n <= 4/5, all k, every tie order of the greedy scan, any MCB of the spanner, any shortest closing path) that the construction stays within the bound.',
   note=TB + 'bound checked against Opt(g) of CycleSpace.tla'),
 'C15': dict(level=MC, design='5 (C05/C06/C15)', tech='TLA+ model Spanner.tla model-checked against Components!SpannerViol + TLC trace validation of spanners observed through the PARMCB_VERIF accessors',
   text='Spanner.tla models the greedy construction with the scan order among equal weights left open; TLC checks the C15 clauses for every order. The real spanner (kept edges with their spanner endpoints and weights, dropped edges) is observed through the guarded read-only accessors for every input and k = 1..4(5) and TLC checks: kept/dropped partition the edge set, spanner edges join the same vertices and carry the input weight, every dropped edge has a path of <= 2k-1 kept edges none heavier than it (hop-bounded BFS evaluated in TLA+), girth of the kept subgraph > 2k.',
   note=TB + 'one add-only hook commit in /repo guarded by PARMCB_VERIF'),
}
NA = {
 'C07': 'memory safety / undefined behaviour is not a property of an abstract state machine: a TLA+ specification cannot observe out-of-bounds or uninitialised accesses and the guidance for this technique family names memory safety as out of reach; switching to sanitizers would be a different technique (DESIGN.md section 6). The returned-handle lifetime clause is checked under C05.',
}
checks = []
for i in ids:
    if i in CLAIMS:
        c = CLAIMS[i]
        checks.append({'property_id': i, 'quick_cmd': 'bin/check %s --tier quick' % i, 'thorough_cmd': 'bin/check %s --tier thorough' % i,
                       'evidence_file': 'evidence/%s.json' % i, 'replay_cmd_template': 'bin/check %s --replay {path}' % i,
                       'engine': 'tlc', 'level_claimed': {'category': c['level'], 'text': c['text'], 'design_ref': 'DESIGN.md section ' + c['design']},
                       'level_note': c['note'], 'technique': c['tech']})
na = [{'property_id': i, 'reason': NA.get(i, 'check not built yet (work in progress; see DESIGN.md section 10)')} for i in ids if i not in CLAIMS]
hooks = json.load(open(os.path.join(ROOT, 'hooks.json'))) if os.path.exists(os.path.join(ROOT, 'hooks.json')) else []
m = {'version': 1, 'setup_cmd': 'bin/check --setup',
     'hooks': {'guard': 'PARMCB_VERIF', 'enable': 'bin/check compiles every harness with -DPARMCB_VERIF against /repo/include (lib/vlib.py BASEFLAGS); the CMake build of the repository never defines it',
               'baseline_off_cmd': 'bin/baseline_off', 'source_commits': hooks, 'add_only': True},
     'engines': [{'name': 'tlc', 'path': 'spec/', 'serves_properties': sorted(CLAIMS), 'kind_free_text': 'explicit TLA+ specifications checked by TLC 1.8 (exhaustive model checking of design models, TLC-generated behaviours replayed into the code, recorded ndjson traces validated against trace specifications)'}],
     'checks': checks, 'notes': 'bin/check <id> rebuilds its harness from the current /repo working tree (content-addressed cache in .build/). Exit 3 = machinery error, never a verdict.',
     'not_applicable': na}
json.dump(m, open(os.path.join(ROOT, 'MANIFEST.json'), 'w'), indent=1)
print('claimed:', sorted(CLAIMS), 'n/a:', [x['property_id'] for x in na])
