#!/usr/bin/env python3
"""seed_matrix.py [seed-name ...]  - runs the owning quick check of every seeded change in a scratch worktree
(VERIF_REPO, evidence redirected), records the outcome in seeded/<name>/meta.json (key 'verif') and prints a table.
Extra checks per seed can be listed in seeded/<name>/also.txt (one property id per line)."""
import json, os, subprocess, sys, time, shutil, re
ROOT = os.path.dirname(os.path.dirname(os.path.abspath(__file__)))
seeds = sys.argv[1:] or sorted(os.listdir(os.path.join(ROOT, 'seeded')))
rows = []
for name in seeds:
    sd = os.path.join(ROOT, 'seeded', name)
    if not os.path.exists(os.path.join(sd, 'patch.diff')):
        continue
    prop = name.split('-')[0]
    props = [prop]
    if os.path.exists(os.path.join(sd, 'also.txt')):
        props += [l.strip() for l in open(os.path.join(sd, 'also.txt')) if l.strip()]
    wt = '/tmp/sm/' + name
    subprocess.run(['git', '-C', '/repo', 'worktree', 'remove', '--force', wt], capture_output=True)
    shutil.rmtree(wt, ignore_errors=True)
    os.makedirs('/tmp/sm', exist_ok=True)
    subprocess.run(['git', '-C', '/repo', 'worktree', 'add', '--detach', wt, 'HEAD'], capture_output=True, check=True)
    ap = subprocess.run(['git', '-C', wt, 'apply', os.path.join(sd, 'patch.diff')], capture_output=True, text=True)
    res = {}
    if ap.returncode != 0:
        res = {'error': 'patch does not apply to current HEAD: ' + ap.stderr[:200]}
    else:
        for p in props:
            ev = '/tmp/sm/ev_' + name
            os.makedirs(ev, exist_ok=True)
            t0 = time.time()
            env = dict(os.environ, VERIF_REPO=wt, VERIF_EVIDENCE_DIR=ev)
            r = subprocess.run([os.path.join(ROOT, 'bin/check'), p, '--tier', 'quick'], capture_output=True, text=True, env=env, cwd=ROOT)
            viol = [l for l in r.stdout.splitlines() if l.startswith('VIOLATION')]
            summ = [l.strip() for l in r.stdout.splitlines() if l.strip().startswith('summary:')]
            res[p] = {'exit': r.returncode, 'detected': r.returncode == 1 and bool(viol), 'violations': len(viol), 'summary': summ[:4], 'wall_s': round(time.time() - t0, 1)}
            shutil.rmtree(ev, ignore_errors=True)
    subprocess.run(['git', '-C', '/repo', 'worktree', 'remove', '--force', wt], capture_output=True)
    shutil.rmtree(wt, ignore_errors=True)
    mp = os.path.join(sd, 'meta.json')
    meta = json.load(open(mp)) if os.path.exists(mp) else {}
    meta['verif'] = {'checked_at_repo_head': subprocess.run(['git', '-C', '/repo', 'log', '--format=%h', '-1'], capture_output=True, text=True).stdout.strip(), 'results': res}
    if os.path.exists(os.path.join(sd, 'confirm.log')):
        last = open(os.path.join(sd, 'confirm.log')).read().strip().splitlines()[-1:]
        meta['confirmed'] = last[0] if last else ''
    json.dump(meta, open(mp, 'w'), indent=1)
    rows.append((name, res))
    print(name, json.dumps(res)[:300], flush=True)
