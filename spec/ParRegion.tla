------------------------------ MODULE ParRegion ------------------------------
(***************************************************************************)
(* C03.  One TBB parallel region as the library uses it.                   *)
(*                                                                         *)
(* parallel_reduce(range 0..N-1, identity, body, join) - the per-phase     *)
(* search for a shortest odd cycle (sptrees.hpp ShortestOddCycleLookup,    *)
(* parmcb_sva_signed_tbb.hpp find_all_vertices/find_less_than_vertices):   *)
(*   item i either yields an odd cycle of weight vals[i] > 0 or none (0);  *)
(*   the body scans its sub-range carrying a running minimum that is also  *)
(*   used as a pruning limit: a search only reports a cycle strictly       *)
(*   lighter than the current limit;                                       *)
(*   join = cycle_min (left operand wins ties, "not found" is neutral).    *)
(* A schedule is a binary tree over the range (Trees): inner nodes carry   *)
(* the split point and whether the right half was STOLEN.  oneTBB          *)
(* semantics: a non-stolen right half is processed by the same body after  *)
(* the left half (initial value = accumulated value); a stolen right half  *)
(* starts from the identity in a split body and is joined afterwards.      *)
(*                                                                         *)
(* Two formulations, checked equal: the recursive Eval (used to generate   *)
(* schedules and transcribed into the vtbb shim) and a small-step machine  *)
(* in which every leaf/join is a separate action, so that TLC explores all *)
(* interleavings of concurrently runnable tasks.                           *)
(***************************************************************************)
EXTENDS Naturals, Integers, Sequences, FiniteSets, TLC, FiniteSetsExt, SequencesExt
CONSTANTS N, VMAX

RECURSIVE Trees(_, _)
Trees(lo, hi) ==
  IF hi - lo = 1 THEN {[k |-> "leaf", lo |-> lo, hi |-> hi]}
  ELSE {[k |-> "leaf", lo |-> lo, hi |-> hi]} \cup
       UNION {{[k |-> "node", lo |-> lo, hi |-> hi, mid |-> m, stolen |-> s, l |-> a, r |-> b] :
                 a \in Trees(lo, m), b \in Trees(m, hi), s \in BOOLEAN} : m \in (lo+1)..(hi-1)}

NotFound == [found |-> FALSE, w |-> 0]
Identity == NotFound
\* the library's cycle_min
Join(c1, c2) == IF ~c1.found \/ ~c2.found THEN (IF c1.found THEN c1 ELSE c2)
                ELSE IF ~(c2.w < c1.w) THEN c1 ELSE c2
\* one search: item value v (0 = no odd cycle), pruned by the running minimum
Search(v, run) == IF v = 0 \/ (run.found /\ ~(v < run.w)) THEN NotFound ELSE [found |-> TRUE, w |-> v]
Step(v, run) == LET res == Search(v, run) IN IF res.found /\ (~run.found \/ res.w < run.w) THEN res ELSE run
\* body over a sub-range [lo, hi): fold of Step
RECURSIVE Body(_, _, _, _)
Body(vals, lo, hi, run) == IF lo >= hi THEN run ELSE Body(vals, lo + 1, hi, Step(vals[lo + 1], run))

RECURSIVE Eval(_, _, _)
Eval(t, vals, init) ==
  IF t.k = "leaf" THEN Body(vals, t.lo, t.hi, init)
  ELSE IF t.stolen THEN Join(Eval(t.l, vals, init), Eval(t.r, vals, Identity))
  ELSE Eval(t.r, vals, Eval(t.l, vals, init))

\* what the sequential loop computes / what the property demands
NonZero(vals) == {vals[i] : i \in 1..N} \ {0}
Expected(vals) == IF NonZero(vals) = {} THEN NotFound ELSE [found |-> TRUE, w |-> Min(NonZero(vals))]
Same(a, b) == a.found = b.found /\ (a.found => a.w = b.w)

\* ---------------- small-step machine ------------------------------------------------------
\* nodes are addressed by their range <<lo, hi>> (unique within one tree)
RECURSIVE Nodes(_)
Nodes(t) == IF t.k = "leaf" THEN {t} ELSE {t} \cup Nodes(t.l) \cup Nodes(t.r)
VARIABLES tree, vals, done      \* done: function from finished node ids to their value
pvars == <<tree, vals, done>>
Id(t) == <<t.lo, t.hi>>
Parent(t) == CHOOSE p \in Nodes(tree) : p.k = "node" /\ (Id(p.l) = Id(t) \/ Id(p.r) = Id(t))
IsRoot(t) == Id(t) = <<0, N>>
Wait == [found |-> FALSE, w |-> -1]
\* the initial value a task starts from, or Wait if it is not determined yet
RECURSIVE InitOf(_)
InitOf(t) ==
  IF IsRoot(t) THEN Identity
  ELSE LET p == Parent(t) IN
       IF Id(p.l) = Id(t) THEN InitOf(p)
       ELSE IF p.stolen THEN Identity
       ELSE IF Id(p.l) \in DOMAIN done THEN done[Id(p.l)] ELSE Wait
PInit == /\ tree \in Trees(0, N) /\ vals \in [1..N -> 0..VMAX] /\ done = <<>>
RunLeaf(t) == /\ t.k = "leaf" /\ Id(t) \notin DOMAIN done /\ InitOf(t) # Wait
              /\ done' = done @@ (Id(t) :> Body(vals, t.lo, t.hi, InitOf(t)))
              /\ UNCHANGED <<tree, vals>>
Finish(t) == /\ t.k = "node" /\ Id(t) \notin DOMAIN done
             /\ Id(t.l) \in DOMAIN done /\ Id(t.r) \in DOMAIN done
             /\ done' = done @@ (Id(t) :> IF t.stolen THEN Join(done[Id(t.l)], done[Id(t.r)]) ELSE done[Id(t.r)])
             /\ UNCHANGED <<tree, vals>>
PNext == \E t \in Nodes(tree) : RunLeaf(t) \/ Finish(t)
PSpec == PInit /\ [][PNext]_pvars /\ WF_pvars(PNext)

\* C03 (reduce regions): whatever the schedule and interleaving, the region returns a global minimum
ResultCorrect == <<0, N>> \in DOMAIN done => Same(done[<<0, N>>], Expected(vals))
SmallStepMatchesEval == <<0, N>> \in DOMAIN done => done[<<0, N>>] = Eval(tree, vals, Identity)
\* every partial result is the minimum of the items its task has seen or was seeded with, never something else
PartialSound == \A id \in DOMAIN done : done[id].found => done[id].w \in NonZero(vals)
Terminates == <>(<<0, N>> \in DOMAIN done)
=============================================================================
