---------------------------- MODULE ForestIndex ----------------------------
(***************************************************************************)
(* C16.  Abstract specification of parmcb::ForestIndex and an              *)
(* implementation-shaped model of spanning_forest + create_index.          *)
(*                                                                         *)
(* Abstract: Index(g) may return ANY numbering r with                      *)
(*   r.idx   : edge (1-based insertion index) -> 0..m-1, bijective         *)
(*   r.rev   : index -> edge, inverse of idx                               *)
(*   r.k     = number of connected components, r.csd = m - n + k           *)
(*   r.onforest[e] <=> idx[e] >= csd, and the on-forest edges are a        *)
(*   spanning forest.                                                      *)
(* Implementation model: BFS from ANY unreached vertex (the code takes     *)
(* unordered_set::begin(), an unspecified element), scanning out-edges in  *)
(* insertion order; then numbering in edge-iteration order with two        *)
(* counters.  MC_ForestIndex checks impl => abstract for every root order. *)
(***************************************************************************)
EXTENDS Components, GraphGen

\* ---------------- implementation-shaped model ----------------------------------------
CONSTANTS N                        \* all simple graphs on <= N vertices are analysed
VARIABLES GI, unreached, queue, forest, comps, phase, low, high, idx, pos
fvars == <<GI, unreached, queue, forest, comps, phase, low, high, idx, pos>>

OutEdges(u) == SelectSeq([i \in 1..M(GI) |-> i], LAMBDA i : Inc(GI, i, u))    \* insertion order

FInit == /\ GI \in AllSimpleUpTo(N, {1})
         /\ unreached = V(GI) /\ queue = <<>> /\ forest = {} /\ comps = 0
         /\ phase = "bfs" /\ low = 0 /\ high = 0 /\ idx = <<>> /\ pos = 1

PickRoot(v) == /\ phase = "bfs" /\ queue = <<>> /\ v \in unreached
               /\ unreached' = unreached \ {v} /\ queue' = <<v>>
               /\ UNCHANGED <<forest, comps, phase, low, high, idx, pos>>

\* one queue pop = scan of all out-edges of u (a deterministic fold in insertion order)
Scan == /\ phase = "bfs" /\ queue # <<>>
        /\ LET u == Head(queue)
               st == FoldSeq(LAMBDA e, s : LET w == Other(GI, e, u) IN
                               IF w = u \/ w \notin s.un THEN s
                               ELSE [un |-> s.un \ {w}, q |-> Append(s.q, w), f |-> s.f \cup {e}],
                             [un |-> unreached, q |-> Tail(queue), f |-> forest], OutEdges(u))
           IN /\ unreached' = st.un /\ queue' = st.q /\ forest' = st.f
              /\ comps' = IF st.q = <<>> THEN comps + 1 ELSE comps
        /\ UNCHANGED <<phase, low, high, idx, pos>>

StartNumbering == /\ phase = "bfs" /\ queue = <<>> /\ unreached = {}
                  /\ phase' = "number" /\ low' = 0 /\ high' = M(GI) - GI.n + comps
                  /\ UNCHANGED <<unreached, queue, forest, comps, idx, pos>>

Number == /\ phase = "number" /\ pos <= M(GI)
          /\ IF pos \in forest
               THEN idx' = Append(idx, high) /\ high' = high + 1 /\ low' = low
               ELSE idx' = Append(idx, low) /\ low' = low + 1 /\ high' = high
          /\ pos' = pos + 1
          /\ UNCHANGED <<unreached, queue, forest, comps, phase>>

Finish == /\ phase = "number" /\ pos > M(GI) /\ phase' = "done"
          /\ UNCHANGED <<unreached, queue, forest, comps, low, high, idx, pos>>

FNext == ((\E v \in V(GI) : PickRoot(v)) \/ Scan \/ StartNumbering \/ Number \/ Finish) /\ UNCHANGED GI
FSpec == FInit /\ [][FNext]_fvars

ImplResult ==
  LET csd == M(GI) - GI.n + comps
  IN [idx |-> idx,
      rev |-> [i \in 1..M(GI) |-> CHOOSE e \in 1..M(GI) : idx[e] = i - 1],
      onforest |-> [e \in 1..M(GI) |-> IF idx[e] >= csd THEN 1 ELSE 0],
      k |-> comps, csd |-> csd]
\* refinement: when the implementation model is done its result satisfies the abstract spec
ImplRefinesAbstract == phase = "done" => ForestViol(GI, ImplResult) = {}
BfsInvariant == phase = "bfs" => IsForest(GI, forest) /\ comps <= GI.n
=============================================================================
