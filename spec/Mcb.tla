-------------------------------- MODULE Mcb --------------------------------
(***************************************************************************)
(* API-level specification of ONE call of an exact minimum-cycle-basis     *)
(* entry point (mcb_sva_signed, mcb_sva_fvs_trees, mcb_sva_iso_trees and   *)
(* their TBB / MPI variants): properties C01, C02, C09 and the result      *)
(* clauses of C03, C04.                                                    *)
(*                                                                         *)
(* The library hands the k-th cycle to the caller's output iterator in     *)
(* phase k and finally returns a number; these are the observable steps:   *)
(*      Call(g) ; Emit(c1) ; ... ; Emit(cN) ; Return(r)                     *)
(* The specification constrains nothing but what the properties state: it  *)
(* does not fix WHICH minimum basis is produced or in which order.         *)
(*                                                                         *)
(* Every guard is written as a set of named violated clauses (XViol), so   *)
(* that the same definitions serve as action guards here, as invariants of *)
(* the implementation-shaped spec Sva.tla and as diagnostics in the trace  *)
(* specification Trace_Mcb.tla.                                            *)
(***************************************************************************)
EXTENDS CycleSpace

VARIABLES pc,      \* "idle" | "run"
          G,       \* the caller's graph
          out,     \* cycles handed to the caller so far (sequence of edge-index sets)
          basis    \* incremental XOR basis of out (derived; kept to make independence cheap)
mvars == <<pc, G, out, basis>>

EmptyGraph == [n |-> 0, edges |-> <<>>]
MInit == pc = "idle" /\ G = EmptyGraph /\ out = <<>> /\ basis = <<>>

Call(g) == /\ pc = "idle"
           /\ InDomain(g)
           /\ pc' = "run" /\ G' = g /\ out' = <<>> /\ basis' = <<>>

SeqToSet(s) == {s[k] : k \in 1..Len(s)}
\* cl: the emitted cycle as the list the caller receives (0 = not an edge of the caller's graph)
EmitViol(cl) ==
  LET c == SeqToSet(cl) IN
       (IF Len(cl) = 0 THEN {"empty-cycle"} ELSE {})
  \cup (IF Len(cl) # Cardinality(c) THEN {"duplicate-edge"} ELSE {})
  \cup (IF ~(c \subseteq EIdx(G)) THEN {"foreign-edge"}
        ELSE (IF Len(cl) > 0 /\ ~IsSimpleCycle(G, c) THEN {"not-simple-cycle"} ELSE {})
             \cup (IF InSpan(c, basis) /\ Len(cl) > 0 THEN {"dependent"} ELSE {}))
  \cup (IF Len(out) >= Dim(G) THEN {"too-many-cycles"} ELSE {})

Emit(cl) == /\ pc = "run"
            /\ EmitViol(cl) = {}
            /\ out' = Append(out, SeqToSet(cl))
            /\ basis' = Insert(SeqToSet(cl), basis)
            /\ UNCHANGED <<pc, G>>

Abs(x) == IF x < 0 THEN -x ELSE x
\* r = [ret |-> nearest integer of returned*scale, frac |-> (returned*scale - ret) in 1e-9 units,
\*      tol |-> allowed relative error in 1e-9 units (0 in the exact domain, 1 for C09)]
Close(r, x) == r.ret = x /\ Abs(r.frac) <= r.tol * x
ReturnViol(r) ==
  LET opt == Opt(G) IN
       (IF Len(out) # Dim(G) THEN {"wrong-count"} ELSE {})
  \cup (IF ~Close(r, SumWt(G, out)) THEN {"ret-ne-emitted-weight"} ELSE {})
  \cup (IF SumWt(G, out) # opt.w THEN {"not-minimum"} ELSE {})
  \cup (IF ~Close(r, opt.w) THEN {"ret-ne-optimum"} ELSE {})
  \cup (IF Len(out) = Dim(G) /\ SumWt(G, out) = opt.w /\ SortedWeights(G, out) # opt.ws
        THEN {"weight-vector"} ELSE {})

\* After a rejected Emit the call is no longer a behaviour of this specification, but the weight clauses of C02 stay decidable:
\* the trace specifications keep summing the weights of whatever is emitted (ws = -1 once an emitted edge is not an edge
\* of the graph) and evaluate them at Return.
AddW(ws, cl) == IF ws < 0 \/ ~(SeqToSet(cl) \subseteq EIdx(G)) THEN -1
                ELSE ws + FoldSeq(LAMBDA e, a : a + W(G, e), 0, cl)
DegradedReturnViol(r, ws) ==
  LET opt == Opt(G) IN
       (IF ~Close(r, opt.w) THEN {"ret-ne-optimum"} ELSE {})
  \cup (IF ws < 0 THEN {} ELSE (IF ~Close(r, ws) THEN {"ret-ne-emitted-weight"} ELSE {})
                                \cup (IF ws # opt.w THEN {"not-minimum"} ELSE {}))

Return(r) == /\ pc = "run"
             /\ ReturnViol(r) = {}
             /\ pc' = "idle" /\ UNCHANGED <<G, out, basis>>

\* clauses by property
C01Clauses == {"empty-cycle", "duplicate-edge", "foreign-edge", "not-simple-cycle", "dependent",
               "too-many-cycles", "wrong-count", "crash", "bad-input"}
C02Clauses == {"ret-ne-emitted-weight", "not-minimum", "ret-ne-optimum", "weight-vector", "crash", "bad-input"}

\* state invariants of the abstract machine (checked in MC_Mcb and on every trace state)
TypeOK == pc \in {"idle", "run"} /\ Len(out) <= Dim(G) /\ Len(basis) = Len(out)
OutIsPartialBasis == \A k \in 1..Len(out) : IsSimpleCycle(G, out[k])
=============================================================================
