---- MODULE ExtGcd_TTrace_1791070482 ----
EXTENDS Sequences, TLCExt, Toolbox, ExtGcd, Naturals, TLC

_expression ==
    LET ExtGcd_TEExpression == INSTANCE ExtGcd_TEExpression
    IN ExtGcd_TEExpression!expression
----

_trace ==
    LET ExtGcd_TETrace == INSTANCE ExtGcd_TETrace
    IN ExtGcd_TETrace!trace
----

_inv ==
    ~(
        TLCGet("level") = Len(_TETrace)
        /\
        xx = (<<1, 0>>)
        /\
        aa = (<<0, 0>>)
        /\
        yy = (<<0, 1>>)
        /\
        A = (-20)
        /\
        B = (0)
        /\
        pc = ("done")
        /\
        rg = (20)
        /\
        swap = (FALSE)
        /\
        rx = (1)
        /\
        ry = (0)
        /\
        i = (1)
    )
----

_init ==
    /\ xx = _TETrace[1].xx
    /\ aa = _TETrace[1].aa
    /\ yy = _TETrace[1].yy
    /\ A = _TETrace[1].A
    /\ B = _TETrace[1].B
    /\ i = _TETrace[1].i
    /\ pc = _TETrace[1].pc
    /\ rg = _TETrace[1].rg
    /\ rx = _TETrace[1].rx
    /\ ry = _TETrace[1].ry
    /\ swap = _TETrace[1].swap
----

_next ==
    /\ \E i,j \in DOMAIN _TETrace:
        /\ \/ /\ j = i + 1
              /\ i = TLCGet("level")
        /\ xx  = _TETrace[i].xx
        /\ xx' = _TETrace[j].xx
        /\ aa  = _TETrace[i].aa
        /\ aa' = _TETrace[j].aa
        /\ yy  = _TETrace[i].yy
        /\ yy' = _TETrace[j].yy
        /\ A  = _TETrace[i].A
        /\ A' = _TETrace[j].A
        /\ B  = _TETrace[i].B
        /\ B' = _TETrace[j].B
        /\ i  = _TETrace[i].i
        /\ i' = _TETrace[j].i
        /\ pc  = _TETrace[i].pc
        /\ pc' = _TETrace[j].pc
        /\ rg  = _TETrace[i].rg
        /\ rg' = _TETrace[j].rg
        /\ rx  = _TETrace[i].rx
        /\ rx' = _TETrace[j].rx
        /\ ry  = _TETrace[i].ry
        /\ ry' = _TETrace[j].ry
        /\ swap  = _TETrace[i].swap
        /\ swap' = _TETrace[j].swap

\* Uncomment the ASSUME below to write the states of the error trace
\* to the given file in Json format. Note that you can pass any tuple
\* to `JsonSerialize`. For example, a sub-sequence of _TETrace.
    \* ASSUME
    \*     LET J == INSTANCE Json
    \*         IN J!JsonSerialize("ExtGcd_TTrace_1791070482.json", _TETrace)

=============================================================================

 Note that you can extract this module `ExtGcd_TEExpression`
  to a dedicated file to reuse `expression` (the module in the 
  dedicated `ExtGcd_TEExpression.tla` file takes precedence 
  over the module `ExtGcd_TEExpression` below).

---- MODULE ExtGcd_TEExpression ----
EXTENDS Sequences, TLCExt, Toolbox, ExtGcd, Naturals, TLC

expression == 
    [
        \* To hide variables of the `ExtGcd` spec from the error trace,
        \* remove the variables below.  The trace will be written in the order
        \* of the fields of this record.
        xx |-> xx
        ,aa |-> aa
        ,yy |-> yy
        ,A |-> A
        ,B |-> B
        ,i |-> i
        ,pc |-> pc
        ,rg |-> rg
        ,rx |-> rx
        ,ry |-> ry
        ,swap |-> swap
        
        \* Put additional constant-, state-, and action-level expressions here:
        \* ,_stateNumber |-> _TEPosition
        \* ,_xxUnchanged |-> xx = xx'
        
        \* Format the `xx` variable as Json value.
        \* ,_xxJson |->
        \*     LET J == INSTANCE Json
        \*     IN J!ToJson(xx)
        
        \* Lastly, you may build expressions over arbitrary sets of states by
        \* leveraging the _TETrace operator.  For example, this is how to
        \* count the number of times a spec variable changed up to the current
        \* state in the trace.
        \* ,_xxModCount |->
        \*     LET F[s \in DOMAIN _TETrace] ==
        \*         IF s = 1 THEN 0
        \*         ELSE IF _TETrace[s].xx # _TETrace[s-1].xx
        \*             THEN 1 + F[s-1] ELSE F[s-1]
        \*     IN F[_TEPosition - 1]
    ]

=============================================================================



Parsing and semantic processing can take forever if the trace below is long.
 In this case, it is advised to uncomment the module below to deserialize the
 trace from a generated binary file.

\*
\*---- MODULE ExtGcd_TETrace ----
\*EXTENDS IOUtils, ExtGcd, TLC
\*
\*trace == IODeserialize("ExtGcd_TTrace_1791070482.bin", TRUE)
\*
\*=============================================================================
\*

---- MODULE ExtGcd_TETrace ----
EXTENDS ExtGcd, TLC

trace == 
    <<
    ([xx |-> <<1, 0>>,aa |-> <<0, 0>>,yy |-> <<0, 1>>,A |-> -20,B |-> 0,pc |-> "start",rg |-> 0,swap |-> FALSE,rx |-> 0,ry |-> 0,i |-> 1]),
    ([xx |-> <<1, 0>>,aa |-> <<0, 0>>,yy |-> <<0, 1>>,A |-> -20,B |-> 0,pc |-> "done",rg |-> 20,swap |-> FALSE,rx |-> 1,ry |-> 0,i |-> 1])
    >>
----


=============================================================================

---- CONFIG ExtGcd_TTrace_1791070482 ----
CONSTANTS
    K = 20
    Variant = "pinned"

INVARIANT
    _inv

CHECK_DEADLOCK
    \* CHECK_DEADLOCK off because of PROPERTY or INVARIANT above.
    FALSE

INIT
    _init

NEXT
    _next

CONSTANT
    _TETrace <- _trace

ALIAS
    _expression
=============================================================================
\* Generated on Sat Oct 03 23:34:45 UTC 2026