----------------------------- MODULE Gen_Graphs -----------------------------
(* Behaviour generation: TLC enumerates the input space and serialises it for the replay harnesses. *)
EXTENDS GraphGen, Json, IOUtils
CONSTANTS N, WS
VARIABLE x
Out == IOEnv.GEN_OUT
ASSUME ndJsonSerialize(Out, SetToSeq(AllSimpleUpTo(N, WS)))
Init == x = 0
Next == UNCHANGED x
=============================================================================
