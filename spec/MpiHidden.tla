------------------------------ MODULE MpiHidden ------------------------------
(***************************************************************************)
(* C04: the hidden-edge search of mcb_sva_signed_mpi split over ranks.      *)
(* K signed edges 1..K.  Rank r holds an order ord[r] of them (in the       *)
(* pinned code: the address order of ITS copy of the graph; after the fix:  *)
(* the forest-index order, identical everywhere).  Position i of the order  *)
(* is searched with positions >= i hidden, so an odd cycle class - a set T  *)
(* of signed edges of odd size that the cycle uses - is examined exactly at *)
(* the position of T's last element in that order.  Ranks take ceil-stride  *)
(* slices of positions.  Complete: every odd class is examined by some rank.*)
(* With SameOrder the property holds for every order; without it TLC finds  *)
(* the counterexample that was replayed against the real code (finding F5). *)
(***************************************************************************)
EXTENDS Naturals, Integers, FiniteSets, Sequences, TLC
CONSTANTS K, P, SameOrder
VARIABLE ord
Perms == {f \in [1..K -> 1..K] : \A i, j \in 1..K : i # j => f[i] # f[j]}
OddSets == {T \in SUBSET (1..K) : Cardinality(T) % 2 = 1}
Stride == (K + P - 1) \div P
Slice(r) == {i \in 1..K : r * Stride < i /\ i <= (r + 1) * Stride}
Pos(o, e) == CHOOSE i \in 1..K : o[i] = e
Finds(o, i, T) == o[i] \in T /\ \A e \in T \ {o[i]} : Pos(o, e) < i
Init == IF SameOrder THEN ord \in {[r \in 0..(P-1) |-> p] : p \in Perms} ELSE ord \in [0..(P-1) -> Perms]
Next == UNCHANGED ord
Complete == \A T \in OddSets : \E r \in 0..(P-1) : \E i \in Slice(r) : Finds(ord[r], i, T)
=============================================================================
