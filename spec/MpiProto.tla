------------------------------- MODULE MpiProto -------------------------------
(***************************************************************************)
(* C04 / C11: collective protocol of the MPI entry points and of the demo. *)
(* Each rank executes a program = sequence of collectives.  A collective   *)
(* completes only when ALL ranks are at it (and it is the same one).       *)
(*   library main loop, per phase k = 1..C:  bcast(support_k) ; then, from *)
(*   the broadcast vector, either the single-edge branch (no collective,   *)
(*   rank 0 searches alone) or reduce(min odd cycle).                      *)
(*   trees variants: scatter(candidates) first, then per phase bcast;reduce*)
(*   demo gate: Gate = "rank0" models the pinned mcb-dimacs-mpi.cpp where  *)
(*   only rank 0 validates the input and returns early on a bad graph;     *)
(*   Gate = "all" the repaired program where every rank decides.           *)
(* Checked: no rank is left waiting in a collective (Termination), ranks   *)
(* never meet in different collectives.                                    *)
(***************************************************************************)
EXTENDS Naturals, Integers, FiniteSets, Sequences, TLC
CONSTANTS P, CMAX, Gate
Ranks == 0..(P-1)
VARIABLES valid,     \* is the input graph acceptable (demo) - chosen nondeterministically
          variant,   \* "signed" | "trees"
          branch,    \* per phase: TRUE = single-edge branch (no reduce)
          pcs,       \* per rank: index of next op in its program
          done       \* per rank: returned
pvars == <<valid, variant, branch, pcs, done>>
PhaseOps(k) == IF variant = "signed" /\ branch[k] THEN <<"bcast">> ELSE <<"bcast", "reduce">>
RECURSIVE Flat(_)
Flat(k) == IF k > Len(branch) THEN <<>> ELSE PhaseOps(k) \o Flat(k + 1)
LibProg == (IF variant = "trees" THEN <<"scatter">> ELSE <<>>) \o Flat(1)
\* the program a rank executes: the demo's gate in front of the library call
Prog(r) == IF valid THEN LibProg
           ELSE IF Gate = "all" THEN <<>>                         \* every rank rejects the input
           ELSE IF r = 0 THEN <<>> ELSE LibProg                   \* pinned: only rank 0 notices
Init == /\ valid \in BOOLEAN /\ variant \in {"signed", "trees"}
        /\ branch \in UNION {[1..c -> BOOLEAN] : c \in 0..CMAX}
        /\ pcs = [r \in Ranks |-> 1] /\ done = [r \in Ranks |-> FALSE]
AtOp(r) == ~done[r] /\ pcs[r] <= Len(Prog(r))
Collective == /\ \A r \in Ranks : AtOp(r)
              /\ \A r, s \in Ranks : Prog(r)[pcs[r]] = Prog(s)[pcs[s]]
              /\ pcs' = [r \in Ranks |-> pcs[r] + 1]
              /\ UNCHANGED <<valid, variant, branch, done>>
ReturnR(r) == /\ ~done[r] /\ pcs[r] > Len(Prog(r))
              /\ done' = [done EXCEPT ![r] = TRUE]
              /\ UNCHANGED <<valid, variant, branch, pcs>>
Next == Collective \/ \E r \in Ranks : ReturnR(r)
Spec == Init /\ [][Next]_pvars /\ WF_pvars(Next)
AllReturn == <>(\A r \in Ranks : done[r])
NoMismatch == \A r, s \in Ranks : (AtOp(r) /\ AtOp(s) /\ pcs[r] = pcs[s]) => Prog(r)[pcs[r]] = Prog(s)[pcs[s]]
\* a state in which some rank waits in a collective that can never complete
Stuck == /\ \E r \in Ranks : AtOp(r)
         /\ \E r \in Ranks : done[r]
NeverStuck == ~Stuck
=============================================================================
