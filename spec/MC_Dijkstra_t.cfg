CONSTANTS N = 5 WS = {1,2} Variant = "code"
SPECIFICATION DSpec
INVARIANTS Final PoppedFinal
PROPERTY Terminates
CHECK_DEADLOCK FALSE
