----------------------------- MODULE CycleSpace -----------------------------
(***************************************************************************)
(* The cycle space of a graph over GF(2), cycle bases and their optimum.   *)
(* A "cycle" is a set of edge indices.  Two independent oracles for the    *)
(* weight of a minimum cycle basis are defined and cross-checked by TLC    *)
(* (MC_CycleSpace.cfg): OptBrute (matroid greedy over the whole cycle      *)
(* space, obviously correct, exponential) and OptHorton (greedy over       *)
(* Horton's candidate set with an incremental XOR basis, polynomial).      *)
(***************************************************************************)
EXTENDS Graphs

XorS(A, B) == (A \ B) \cup (B \ A)
Even(g, S) == \A v \in V(g) : Deg(g, S, v) % 2 = 0
CycleSpaceOf(g) == {S \in SUBSET EIdx(g) : Even(g, S)}          \* includes {}

\* one simple cycle: non-empty, every touched vertex has degree 2, one piece
IsSimpleCycle(g, S) ==
  /\ S # {}
  /\ \A v \in V(g) : Deg(g, S, v) \in {0, 2}
  /\ LET lab == Labels(g, S) IN Cardinality({lab[Src(g, i)] : i \in S}) = 1

\* ---- incremental XOR basis with pivots ------------------------------------
\* basis = sequence of [p |-> pivot, v |-> vector]; vector k is reduced w.r.t. 1..k-1
Reduce(c, basis) == FoldSeq(LAMBDA b, acc : IF b.p \in acc THEN XorS(acc, b.v) ELSE acc, c, basis)
Insert(c, basis) == LET x == Reduce(c, basis) IN IF x = {} THEN basis ELSE Append(basis, [p |-> Min(x), v |-> x])
BasisOf(cs) == FoldSeq(LAMBDA c, b : Insert(c, b), <<>>, cs)      \* cs: sequence of edge sets
Rank(cs) == Len(BasisOf(cs))
Independent(cs) == Rank(cs) = Len(cs)
InSpan(c, basis) == Reduce(c, basis) = {}

\* a (not necessarily minimum) cycle basis of g
IsCycleBasis(g, cs) ==
  /\ Len(cs) = Dim(g)
  /\ \A k \in 1..Len(cs) : cs[k] \subseteq EIdx(g) /\ IsSimpleCycle(g, cs[k])
  /\ Independent(cs)

SumWt(g, cs) == FoldSeq(LAMBDA c, a : a + Wt(g, c), 0, cs)
SortedWeights(g, cs) == SortSeq([k \in 1..Len(cs) |-> Wt(g, cs[k])], <)

\* ---- greedy over a candidate set -------------------------------------------------
\* returns [w |-> total weight, d |-> number chosen, ws |-> chosen weights ascending]
Greedy(g, cands) ==
  LET wl  == TLCEval(SetToSortSeq({<<Wt(g, c), c>> : c \in cands \ {{}}},
                        LAMBDA a, b : a[1] <= b[1]))
      r == FoldSeq(LAMBDA wc, st : LET x == Reduce(wc[2], st.basis) IN
                      IF x = {} THEN st
                      ELSE [basis |-> Append(st.basis, [p |-> Min(x), v |-> x]),
                            w |-> st.w + wc[1], d |-> st.d + 1, ws |-> Append(st.ws, wc[1])],
                    [basis |-> <<>>, w |-> 0, d |-> 0, ws |-> <<>>], wl)
  IN [w |-> r.w, d |-> r.d, ws |-> r.ws]

\* ---- OptBrute: matroid greedy over every element of the cycle space ---------------
OptBrute(g) == Greedy(g, CycleSpaceOf(g))

\* ---- OptHorton: greedy over Horton's candidates -----------------------------------
\* one (arbitrary, CHOOSE-built) shortest path tree per root, candidates path(r,x)+path(r,y)+xy
PredEdge(g, d, r, v) == CHOOSE e \in EIdx(g) : Inc(g, e, v) /\ d[<<r, Other(g, e, v)>>] + W(g, e) = d[<<r, v>>]
RECURSIVE PathE(_, _, _, _)
PathE(g, d, r, v) == IF v = r THEN {} ELSE LET e == PredEdge(g, d, r, v) IN {e} \cup PathE(g, d, r, Other(g, e, v))
HortonCands(g) ==
  LET d == Dist(g) IN
  UNION { LET P == TLCEval([v \in V(g) |-> IF d[<<r, v>>] < Inf THEN PathE(g, d, r, v) ELSE {}])
          IN {XorS(XorS(P[Src(g, e)], P[Dst(g, e)]), {e}) : e \in {x \in EIdx(g) : d[<<r, Src(g, x)>>] < Inf}}
        : r \in V(g)}
OptHorton(g) == Greedy(g, HortonCands(g))

\* the oracle used by trace validation: brute force while it is cheap
Opt(g) == IF M(g) <= 12 THEN OptBrute(g) ELSE OptHorton(g)

\* shortest cycle C with <C,S> = 1 (S a set of edge indices), over the whole cycle space
MinOddWeight(g, S) ==
  LET odd == {C \in CycleSpaceOf(g) : Cardinality(C \cap S) % 2 = 1}
  IN IF odd = {} THEN Inf ELSE Min({Wt(g, C) : C \in odd})
=============================================================================
