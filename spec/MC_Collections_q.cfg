CONSTANTS N = 4 WS = {1}
INIT Init
NEXT Next
INVARIANTS Sound HortonSufficient FvsSufficient IsoSufficient LinkTargetsExist
CHECK_DEADLOCK FALSE
