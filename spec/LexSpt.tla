------------------------------- MODULE LexSpt -------------------------------
(***************************************************************************)
(* C12, implementation-shaped: lex_dijkstra (detail/lex_dijkstra.hpp) and  *)
(* the tree SPTree builds from it.                                         *)
(* A label is <<distance, number of edges, set of vertices on the path>>,  *)
(* compared like LexDistanceCompare: distance, then edge count, then the   *)
(* smallest vertex in the symmetric difference of the vertex sets.         *)
(* The machine settles ANY minimal queued vertex and relaxes the out-edges *)
(* of the settled vertex in ANY order (the code uses the d-ary heap order  *)
(* and the insertion order of the edges; neither is part of the contract). *)
(* Checked for every graph in the bound, every source, every order:        *)
(*   MachineIsCanonical  the tree is the CANONICAL one: for every vertex   *)
(*                       the predecessor edge is the last edge of the      *)
(*                       lexicographically smallest simple path            *)
(*   CanonUnique         that smallest path is unique (no two shortest     *)
(*                       paths share hop count and vertex set)             *)
(* and, as a theorem about the canonical trees of one graph (CanonOK):     *)
(*   they satisfy Components!SptViol = {} : exact distances, first-labels, *)
(*   reversal symmetry and sub-path closure.                               *)
(***************************************************************************)
EXTENDS LexOps
CONSTANTS N, WS
VARIABLES G, s, lab, pred, queued, settled, cur, pend
lvars == <<G, s, lab, pred, queued, settled, cur, pend>>

NoLabel == [d |-> -1, h |-> 0, vs |-> {}]
LexLess(a, b) ==
  IF a.d < b.d THEN TRUE ELSE IF a.d > b.d THEN FALSE
  ELSE IF a.h < b.h THEN TRUE ELSE IF a.h > b.h THEN FALSE
  ELSE LET na == a.vs \ b.vs
           nb == b.vs \ a.vs
       IN IF na = {} /\ nb # {} THEN TRUE
          ELSE IF na # {} /\ nb = {} THEN FALSE
          ELSE IF na # {} /\ nb # {} THEN Min(na) < Min(nb)
          ELSE FALSE
Combine(a, e) == [d |-> a.d + W(G, e), h |-> a.h + 1, vs |-> a.vs \cup Ends(G, e)]

LInit == /\ G \in AllSimple(N, WS) /\ s \in V(G)
         /\ lab = [v \in V(G) |-> IF v = s THEN [d |-> 0, h |-> 0, vs |-> {s}] ELSE NoLabel]
         /\ pred = [v \in V(G) |-> 0]
         /\ queued = {s} /\ settled = {} /\ cur = -1 /\ pend = {}
Settle(u) == /\ cur = -1 /\ u \in queued
             /\ \A x \in queued : ~LexLess(lab[x], lab[u])
             /\ queued' = queued \ {u} /\ settled' = settled \cup {u}
             /\ cur' = u /\ pend' = {e \in EIdx(G) : Inc(G, e, u)}
             /\ UNCHANGED <<G, s, lab, pred>>
Relax(e) == /\ cur # -1 /\ e \in pend
            /\ pend' = pend \ {e}
            /\ LET w == Other(G, e, cur)
                   c == Combine(lab[cur], e)
               IN IF w = s THEN UNCHANGED <<lab, pred, queued>>
                  ELSE IF pred[w] = 0
                         THEN lab' = [lab EXCEPT ![w] = c] /\ pred' = [pred EXCEPT ![w] = e] /\ queued' = queued \cup {w}
                  ELSE IF LexLess(c, lab[w])
                         THEN lab' = [lab EXCEPT ![w] = c] /\ pred' = [pred EXCEPT ![w] = e] /\ UNCHANGED queued
                  ELSE UNCHANGED <<lab, pred, queued>>
            /\ UNCHANGED <<G, s, settled, cur>>
EndScan == /\ cur # -1 /\ pend = {} /\ cur' = -1 /\ UNCHANGED <<G, s, lab, pred, queued, settled, pend>>
LNext == (\E u \in V(G) : Settle(u)) \/ (\E e \in EIdx(G) : Relax(e)) \/ EndScan
LSpec == LInit /\ [][LNext]_lvars
Done == cur = -1 /\ queued = {}

CanonUnique == \A v \in V(G) : Cardinality(CanonPaths(G, s)[v]) <= 1
MachineIsCanonical ==
  Done => LET ct == CanonTree(G, s) IN
          \A v \in V(G) : /\ pred[v] = ct.pred[v + 1]
                          /\ (lab[v].d = ct.dist[v + 1])
\* theorem about the canonical trees of the whole graph (evaluated in the initial states only: s = 0)
CanonOK == (s = 0 /\ cur = -1 /\ settled = {}) => SptViol(G, [r \in 1..G.n |-> CanonTree(G, r - 1)]) = {}
=============================================================================
