CONSTANTS N = 5 WS = {1,2} KS = {1,2}
SPECIFICATION SSpec
INVARIANTS SpannerRefines GirthInv StretchInv ApproxBound
CHECK_DEADLOCK FALSE
