CONSTANTS K = 3 P = 2 SameOrder = FALSE
INIT Init
NEXT Next
INVARIANT Complete
CHECK_DEADLOCK FALSE
