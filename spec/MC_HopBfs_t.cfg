CONSTANTS N = 5 HMAX = 5 Variant = "code"
SPECIFICATION HSpec
INVARIANTS Correct QueueInv
PROPERTY Terminates
CHECK_DEADLOCK FALSE
