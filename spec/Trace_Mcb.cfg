SPECIFICATION TSpec
INVARIANT Inv
POSTCONDITION Accepted
CHECK_DEADLOCK FALSE
