----------------------------- MODULE Gen_Dimacs -----------------------------
(* Generation for C10/C11: every abstract DIMACS file within the bounds, and every small multigraph for the validators. *)
EXTENDS Dimacs, Json, IOUtils, FiniteSetsExt, SequencesExt
CONSTANTS MV, ME
MW == {-1, 0, 1}
\* multigraphs on exactly MV vertices (0-based) with <= ME edges in every order, loops and parallel edges allowed
MPairs == (0..(MV-1)) \X (0..(MV-1))
Multi == UNION {{[n |-> MV, edges |-> [i \in 1..len |-> <<f[i][1][1], f[i][1][2], f[i][2]>>]] : f \in [1..len -> MPairs \X MW]} : len \in 0..ME}
ASSUME ndJsonSerialize(IOEnv.GEN_OUT, SetToSeq(Files))
ASSUME ndJsonSerialize(IOEnv.GEN_OUT_M, SetToSeq(Multi))
GInit == file = [lines |-> <<>>, nl |-> TRUE] /\ pos = 1 /\ rn = 0 /\ redges = <<>> /\ failed = FALSE
GNext == UNCHANGED dvars
=============================================================================
