------------------------------ MODULE Trace_GF2 ------------------------------
(* Trace specification for C17: recorded SpVecGF2 operation histories are behaviours of SpVecGF2.tla. *)
EXTENDS SpVecGF2, Json, IOUtils
Tr == ndJsonDeserialize(IOEnv.TRACE)
VARIABLES l
tvars == <<l, r>>
Report(v) == IF v = {} THEN TRUE ELSE PrintT(<<"REJECT", l, l, v>>)
TRegs(ev) == 0..(Len(ev.regs) - 1)       \* the number of registers is a property of the recorded history
RegsOf(ev) == [k \in TRegs(ev) |-> AsSet(ev.regs[k + 1])]
NotCanonical(ev) == \E k \in TRegs(ev) : ~StrictlyIncreasing(ev.regs[k + 1])
TCrash(ev) == ev.e = "Crash" /\ Report({"crash"}) /\ UNCHANGED r
TReset(ev) == /\ ev.e = "GF2" /\ ev.op = "Reset"
              /\ Report(IF NotCanonical(ev) THEN {"not-canonical"} ELSE {})
              /\ r' = RegsOf(ev)
TOp(ev) ==
  /\ ev.e = "GF2" /\ ev.op # "Reset"
  /\ LET eff == Effect(r, ev)
         free == MovedFrom(ev)
         got == RegsOf(ev)
         v ==      (IF NotCanonical(ev) THEN {"not-canonical"} ELSE {})
              \cup (IF \E k \in TRegs(ev) \ free : got[k] # eff.r[k] THEN
                       (IF ev.op \notin {"Dot", "DotSet"} /\ got[ev.d] # eff.r[ev.d] THEN {"wrong-result-vector"} ELSE {})
                       \cup (IF \E k \in TRegs(ev) \ (free \cup {ev.d}) : got[k] # eff.r[k] THEN {"operand-changed"} ELSE {})
                    ELSE {})
              \cup (IF \E k \in TRegs(ev) : ev.sizes[k + 1] # Len(ev.regs[k + 1]) THEN {"size"} ELSE {})
              \cup (IF eff.res # -1 /\ ev.res # eff.res THEN {"product"} ELSE {})
     IN Report(v) /\ r' = got          \* resynchronise on the observed state so that the rest of the history is checked
TInit == l = 1 /\ r = [k \in Regs |-> {}]
TNext == l <= Len(Tr) /\ l' = l + 1 /\ LET ev == Tr[l] IN TReset(ev) \/ TOp(ev) \/ TCrash(ev)
TSpec == TInit /\ [][TNext]_tvars
Accepted == TLCGet("stats").diameter - 1 = Len(Tr)
=============================================================================
