CONSTANTS N = 4 HMAX = 4 Variant = "bound-inclusive"
SPECIFICATION HSpec
INVARIANTS Correct
CHECK_DEADLOCK FALSE
