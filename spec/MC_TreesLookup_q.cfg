CONSTANTS N = 4 WS = {1}
INIT Init
NEXT Next
INVARIANTS ParityRuleSound HortonLookup FvsLookup IsoLookup
CHECK_DEADLOCK FALSE
