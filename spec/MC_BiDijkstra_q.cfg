CONSTANTS N = 3 WS = {1,3} Limits = {0, 5, 6} LimitFactor = 1
SPECIFICATION BSpec
INVARIANTS Correct BestIsAPath
CHECK_DEADLOCK FALSE
