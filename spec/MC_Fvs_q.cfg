CONSTANTS N = 4
SPECIFICATION GSpec
INVARIANTS DegreeInv FvsRefines NoCycleLeftWhenDone
CHECK_DEADLOCK FALSE
