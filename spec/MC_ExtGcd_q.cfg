CONSTANTS K = 20 Variant = "fixed"
SPECIFICATION ESpec
INVARIANTS BezoutInv PostCondition
CHECK_DEADLOCK FALSE
