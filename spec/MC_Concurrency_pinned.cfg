CONSTANTS HW = 16 VALUES = {1,2,3,16,20} MAXCALLS = 3 Shape = "local"
SPECIFICATION Spec
INVARIANTS KnobEffective AtMostOneHeld
CHECK_DEADLOCK FALSE
