CONSTANTS N = 4 WS = {1,2,3} Variant = "code"
SPECIFICATION DSpec
INVARIANTS Final PoppedFinal
PROPERTY Terminates
CHECK_DEADLOCK FALSE
