CONSTANTS R = 3 D = 3
INIT Init
NEXT Next
INVARIANT TypeOK
CHECK_DEADLOCK FALSE
