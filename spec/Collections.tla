----------------------------- MODULE Collections -----------------------------
(***************************************************************************)
(* C14, implementation-shaped: the candidate collections of                *)
(* detail/cycles.hpp built on the canonical shortest-path trees.           *)
(*   Horton   every (root x, non-tree edge e = uv of T_x) whose two root   *)
(*            paths leave x through different children                     *)
(*   FVS      the Horton candidates whose root lies in a feedback vertex   *)
(*            set F - checked for EVERY feedback vertex set F              *)
(*   ISO      ISOCyclesBuilder: candidates are linked when they represent  *)
(*            the same cycle seen from a neighbouring root (three rules),  *)
(*            a candidate none of the rules applies to is "bad"; a class   *)
(*            containing a bad member is dropped; one representative of    *)
(*            every other class is kept.  Lookups of a link target that is *)
(*            not a candidate fall back to the first candidate (that is    *)
(*            what std::map::operator[] does in the code).                 *)
(* Checked for every graph in the bound (theorems, one state per graph):   *)
(*   every candidate is a simple cycle through its root with the recorded  *)
(*   weight; each of the three collections contains a minimum cycle basis; *)
(*   LinkTargetsExist: the fallback lookup is never taken.                 *)
(***************************************************************************)
EXTENDS CollOps
CONSTANTS N, WS
VARIABLES G
Init == G \in AllSimple(N, WS)
Next == UNCHANGED G

Trees == TreesOf(G)
HortonSeqM(tr) == HortonSeq(G, tr)
Sound == LET tr == Trees
             H == HortonSeq(G, tr)
         IN \A i \in 1..Len(H) : LET C == CycleOf(G, tr, H[i]) IN IsSimpleCycle(G, C) /\ Deg(G, C, H[i][1]) = 2
Suff(cands, tr) == LET gr == Greedy(G, {CycleOf(G, tr, c) : c \in cands}) IN gr.d = Dim(G) /\ gr.w = OptBrute(G).w
HortonSufficient == LET tr == Trees H == HortonSeq(G, tr) IN Suff({H[i] : i \in 1..Len(H)}, tr)
IsFvs(F) == IsForest(G, {e \in EIdx(G) : Src(G, e) \notin F /\ Dst(G, e) \notin F})
FvsSufficient == LET tr == Trees H == HortonSeq(G, tr) IN
                 \A F \in SUBSET V(G) : IsFvs(F) => Suff({H[i] : i \in {j \in 1..Len(H) : H[j][1] \in F}}, tr)
LinkTargetsExist == LinkTargetsExistG(G)
IsoSufficient == LET tr == Trees IN Suff(IsoOut(G, tr), tr)
=============================================================================
