----------------------------- MODULE Collections -----------------------------
(***************************************************************************)
(* C14, implementation-shaped: the candidate collections of                *)
(* detail/cycles.hpp built on the canonical shortest-path trees.           *)
(*   Horton   every (root x, non-tree edge e = uv of T_x) whose two root   *)
(*            paths leave x through different children                     *)
(*   FVS      the Horton candidates whose root lies in a feedback vertex   *)
(*            set F - checked for EVERY feedback vertex set F              *)
(*   ISO      ISOCyclesBuilder: candidates are linked when they represent  *)
(*            the same cycle seen from a neighbouring root (three rules),  *)
(*            a candidate none of the rules applies to is "bad"; a class   *)
(*            containing a bad member is dropped; one representative of    *)
(*            every other class is kept.  Lookups of a link target that is *)
(*            not a candidate fall back to the first candidate (that is    *)
(*            what std::map::operator[] does in the code).                 *)
(* Checked for every graph in the bound (theorems, one state per graph):   *)
(*   every candidate is a simple cycle through its root with the recorded  *)
(*   weight; each of the three collections contains a minimum cycle basis; *)
(*   LinkTargetsExist: the fallback lookup is never taken.                 *)
(***************************************************************************)
EXTENDS LexOps
CONSTANTS N, WS
VARIABLES G
Init == G \in AllSimple(N, WS)
Next == UNCHANGED G

T(x) == CanonTree(G, x)
Trees == [x \in V(G) |-> T(x)]
FirstOf(tr, x, v) == tr[x].first[v + 1]
PredOf(tr, x, v) == tr[x].pred[v + 1]
Reach(tr, x, v) == tr[x].dist[v + 1] # -1
IsCand(tr, x, e) == /\ Reach(tr, x, Src(G, e)) /\ Reach(tr, x, Dst(G, e))
                    /\ PredOf(tr, x, Src(G, e)) # e /\ PredOf(tr, x, Dst(G, e)) # e
                    /\ FirstOf(tr, x, Src(G, e)) # FirstOf(tr, x, Dst(G, e))
\* candidates in construction order: trees in vertex order, edges in edge order
HortonSeq(tr) == LET pairs == {<<x, e>> \in V(G) \X EIdx(G) : IsCand(tr, x, e)}
                 IN SetToSortSeq(pairs, LAMBDA a, b : a[1] < b[1] \/ (a[1] = b[1] /\ a[2] <= b[2]))
CycleOf(tr, c) == TreePath(G, tr[c[1]], Src(G, c[2])) \cup TreePath(G, tr[c[1]], Dst(G, c[2])) \cup {c[2]}

\* the linking rule of ISOCyclesBuilder for candidate c = <<x, e>>: the candidate it is linked to, or "bad"
LinkOf(tr, c) ==
  LET x == c[1]
      e == c[2]
      u == Src(G, e)
      v == Dst(G, e)
  IN IF x = u THEN [bad |-> FALSE, to |-> <<v, e>>]
     ELSE LET xp == FirstOf(tr, x, u) IN
          IF x = FirstOf(tr, xp, v) THEN [bad |-> FALSE, to |-> <<xp, e>>]
          ELSE IF u = FirstOf(tr, v, xp) THEN [bad |-> FALSE, to |-> <<v, PredOf(tr, x, xp)>>]
          ELSE [bad |-> TRUE, to |-> c]
IsoOut(tr) ==
  LET H == HortonSeq(tr)
      Hs == {H[i] : i \in 1..Len(H)}
      tgt(c) == LET lk == LinkOf(tr, c) IN IF lk.bad THEN c ELSE IF lk.to \in Hs THEN lk.to ELSE H[1]
      adj == {<<c, tgt(c)>> : c \in Hs}
      \* connected components by label propagation over the candidate indices
      lab == FoldSet(LAMBDA p, f : LET a == f[p[1]] b == f[p[2]] IN
                        IF a = b THEN f ELSE TLCEval([c \in Hs |-> IF f[c] = b THEN a ELSE f[c]]),
                     TLCEval([c \in Hs |-> c]), adj)
      badclass == {lab[c] : c \in {d \in Hs : LinkOf(tr, d).bad}}
      good == {c \in Hs : lab[c] \notin badclass}
  IN {c \in good : \A d \in good : lab[d] = lab[c] =>
          (CHOOSE i \in 1..Len(H) : H[i] = c) <= (CHOOSE i \in 1..Len(H) : H[i] = d)}
LinkTargetsExist ==
  LET tr == Trees
      H == HortonSeq(tr)
      Hs == {H[i] : i \in 1..Len(H)}
  IN \A c \in Hs : LinkOf(tr, c).bad \/ LinkOf(tr, c).to \in Hs

Sound == LET tr == Trees
             H == HortonSeq(tr)
         IN \A i \in 1..Len(H) : LET C == CycleOf(tr, H[i]) IN IsSimpleCycle(G, C) /\ Deg(G, C, H[i][1]) = 2
Suff(cands, tr) == LET gr == Greedy(G, {CycleOf(tr, c) : c \in cands}) IN gr.d = Dim(G) /\ gr.w = OptBrute(G).w
HortonSufficient == LET tr == Trees H == HortonSeq(tr) IN Suff({H[i] : i \in 1..Len(H)}, tr)
IsFvs(F) == IsForest(G, {e \in EIdx(G) : Src(G, e) \notin F /\ Dst(G, e) \notin F})
FvsSufficient == LET tr == Trees H == HortonSeq(tr) IN
                 \A F \in SUBSET V(G) : IsFvs(F) => Suff({H[i] : i \in {j \in 1..Len(H) : H[j][1] \in F}}, tr)
IsoSufficient == LET tr == Trees IN Suff(IsoOut(tr), tr)
=============================================================================
