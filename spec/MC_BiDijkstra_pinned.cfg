CONSTANTS N = 4 WS = {1,3} Limits = {6} LimitFactor = 2
SPECIFICATION BSpec
INVARIANTS Correct
CHECK_DEADLOCK FALSE
