------------------------------ MODULE GraphGen ------------------------------
(* Finite families of input graphs, enumerated by TLC (generators + MC domains). *)
EXTENDS CycleSpace

Pairs(N) == {p \in (0..(N-1)) \X (0..(N-1)) : p[1] < p[2]}
LexLE(a, b) == a[1] < b[1] \/ (a[1] = b[1] /\ a[2] <= b[2])
\* every simple labelled graph on exactly N vertices with weights from WS, edges in lexicographic order
AllSimple(N, WS) ==
  UNION { LET ps == SetToSortSeq(P, LexLE)
          IN {[n |-> N, edges |-> [k \in 1..Len(ps) |-> <<ps[k][1], ps[k][2], f[k]>>]] : f \in [1..Len(ps) -> WS]}
        : P \in SUBSET Pairs(N) }
AllSimpleUpTo(N, WS) == UNION {AllSimple(k, WS) : k \in 0..N}
\* unweighted (all weights 1)
AllShapes(N) == AllSimple(N, {1})
\* edge sequence reversed / permuted presentations of the same graph
Reversed(g) == [n |-> g.n, edges |-> [k \in 1..Len(g.edges) |-> g.edges[Len(g.edges) + 1 - k]]]
Flipped(g) == [n |-> g.n, edges |-> [k \in 1..Len(g.edges) |-> <<g.edges[k][2], g.edges[k][1], g.edges[k][3]>>]]
=============================================================================
