------------------------------ MODULE Trace_FP ------------------------------
(* Trace specification for C18: recorded calls of ext_gcd / get_mult_inverse / is_prime and recorded *)
(* SpVecFP operation histories are behaviours of FpArith.tla.                                          *)
EXTENDS FpArith, Json, IOUtils
Tr == ndJsonDeserialize(IOEnv.TRACE)
VARIABLES l, r
tvars == <<l, r>>
Report(v) == IF v = {} THEN TRUE ELSE PrintT(<<"REJECT", l, l, v>>)
NRegs(ev) == Len(ev.regs)
RegsOf(ev) == [k \in 0..(NRegs(ev) - 1) |-> VecOf(ev.regs[k + 1])]
BadEntries(ev) == \E k \in 1..NRegs(ev) : ~EntriesOK(ev.p, ev.regs[k])
\* every register of a history is a vector over F_p, also one that was default-constructed and then assigned to
BadModulus(ev) == \E k \in 1..Len(ev.primes) : ev.primes[k] # ev.p
TPure(ev) ==
  /\ ev.e \in {"Gcd", "Inv", "Prime", "Crash", "GcdBig", "InvBig"}
  /\ UNCHANGED r
  /\ Report(CASE ev.e = "Gcd" -> GcdViol(ev.a, ev.b, ev.g, ev.x, ev.y)
              [] ev.e = "Inv" -> InvViol(ev.a, ev.p, ev.threw, ev.x)
              [] ev.e = "Prime" -> (IF ev.threw THEN {"is_prime-threw"} ELSE PrimeViol(ev.p, ev.res))
              [] ev.e = "GcdBig" -> GcdBigViol(ev)
              [] ev.e = "InvBig" -> (IF ev.threw THEN {"threw-although-invertible"} ELSE InvBigViol(ev))
              [] ev.e = "Crash" -> {"crash"})
TFPReset(ev) == /\ ev.e = "FP" /\ ev.op = "Reset"
                /\ Report((IF BadEntries(ev) THEN {"entries-not-canonical"} ELSE {}) \cup (IF BadModulus(ev) THEN {"modulus-not-carried-over"} ELSE {}))
                /\ r' = RegsOf(ev)
TFPOp(ev) ==
  /\ ev.e = "FP" /\ ev.op # "Reset"
  /\ LET eff == FPEffect(ev.p, r, ev)
         got == RegsOf(ev)
         v ==      (IF BadEntries(ev) THEN {"entries-not-canonical"} ELSE {})
              \cup (IF BadModulus(ev) THEN {"modulus-not-carried-over"} ELSE {})
              \cup (IF ev.op # "Dot" /\ got[ev.d] # eff.r[ev.d] THEN {"wrong-result-vector"} ELSE {})
              \cup (IF \E k \in DOMAIN got : (ev.op = "Dot" \/ k # ev.d) /\ got[k] # eff.r[k] THEN {"operand-changed"} ELSE {})
              \cup (IF \E k \in 1..NRegs(ev) : ev.sizes[k] # Len(ev.regs[k]) THEN {"size"} ELSE {})
              \cup (IF eff.res # -1 /\ ev.res # eff.res THEN {"dot-product"} ELSE {})
     IN Report(v) /\ r' = got
TInit == l = 1 /\ r = <<>>
TNext == l <= Len(Tr) /\ l' = l + 1 /\ LET ev == Tr[l] IN TPure(ev) \/ TFPReset(ev) \/ TFPOp(ev)
TSpec == TInit /\ [][TNext]_tvars
Accepted == TLCGet("stats").diameter - 1 = Len(Tr)
=============================================================================
