CONSTANTS N = 4 HMAX = 4 Variant = "code"
SPECIFICATION HSpec
INVARIANTS Correct QueueInv
PROPERTY Terminates
CHECK_DEADLOCK FALSE
