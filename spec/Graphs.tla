------------------------------- MODULE Graphs -------------------------------
(***************************************************************************)
(* Weighted undirected (multi)graphs as they appear in every event of the  *)
(* parmcb traces and in every generator:                                    *)
(*      g = [n |-> N, edges |-> << <<u, v, w>>, ... >>]                     *)
(* vertices are 0..N-1, the position of an edge in g.edges (1-based) is its *)
(* identity ("edge index", the insertion order of boost::add_edge), w is an *)
(* integer (scaled) weight.  Pure operators only; no state.                 *)
(*                                                                         *)
(* TLC discipline: every function that is built inside a fold is forced    *)
(* with TLCEval, otherwise TLC keeps it lazy and re-evaluates the nested   *)
(* closures exponentially often.                                           *)
(***************************************************************************)
EXTENDS Naturals, Integers, Sequences, FiniteSets, TLC, FiniteSetsExt, SequencesExt, Functions

Inf == 100000000                        \* larger than any path weight in a validated trace (< 2^31)

V(g)      == 0..(g.n - 1)
EIdx(g)   == 1..Len(g.edges)
Src(g, i) == g.edges[i][1]
Dst(g, i) == g.edges[i][2]
W(g, i)   == g.edges[i][3]
Ends(g, i) == {Src(g, i), Dst(g, i)}
Inc(g, i, v) == Src(g, i) = v \/ Dst(g, i) = v
Other(g, i, v) == IF Src(g, i) = v THEN Dst(g, i) ELSE Src(g, i)
M(g) == Len(g.edges)

MinI(a, b) == IF a <= b THEN a ELSE b
MaxI(a, b) == IF a >= b THEN a ELSE b

\* ---- well-formedness -------------------------------------------------------
EndpointsOK(g) == \A i \in EIdx(g) : Src(g, i) \in V(g) /\ Dst(g, i) \in V(g)
HasLoop(g) == \E i \in EIdx(g) : Src(g, i) = Dst(g, i)
HasParallel(g) == \E i, j \in EIdx(g) : i < j /\ Ends(g, i) = Ends(g, j)
HasNonPositive(g) == \E i \in EIdx(g) : W(g, i) <= 0
\* the input domain of all cycle-basis algorithms ("simple graph, positive weights")
InDomain(g) == EndpointsOK(g) /\ ~HasLoop(g) /\ ~HasParallel(g) /\ ~HasNonPositive(g)

\* ---- weights ------------------------------------------------------------------
Wt(g, S) == FoldSet(LAMBDA i, acc : acc + W(g, i), 0, S)
Deg(g, S, v) == Cardinality({i \in S : Src(g, i) = v}) + Cardinality({i \in S : Dst(g, i) = v})

\* ---- connectivity by label merging -----------------------------------------
\* Labels(g, S)[v] = a canonical representative of the component of v in (V, S)
Labels(g, S) ==
  FoldSet(LAMBDA i, lab :
            LET a == lab[Src(g, i)]
                b == lab[Dst(g, i)]
            IN IF a = b THEN lab
               ELSE TLCEval([v \in V(g) |-> IF lab[v] = b THEN a ELSE lab[v]]),
          TLCEval([v \in V(g) |-> v]), S)
NumComp(g, S) == LET lab == Labels(g, S) IN Cardinality({lab[v] : v \in V(g)})
Comp(g) == NumComp(g, EIdx(g))
Dim(g) == M(g) - g.n + Comp(g)                         \* cycle-space dimension
Connected(g, S, u, v) == LET lab == Labels(g, S) IN lab[u] = lab[v]
\* S (a set of edge indices) is acyclic iff every edge merges two components
IsForest(g, S) == NumComp(g, S) = g.n - Cardinality(S)
\* S spans every component of g
IsSpanningForest(g, S) == IsForest(g, S) /\ NumComp(g, S) = Comp(g)

\* ---- shortest paths: Floyd-Warshall over a flat, forced table ------------------
D0(g) == TLCEval([p \in V(g) \X V(g) |->
            IF p[1] = p[2] THEN 0
            ELSE LET es == {e \in EIdx(g) : Ends(g, e) = {p[1], p[2]}}
                 IN IF es = {} THEN Inf ELSE Min({W(g, e) : e \in es})])
RECURSIVE FW(_, _, _)
FW(g, k, d) == IF k = g.n THEN d
               ELSE FW(g, k + 1, TLCEval([p \in V(g) \X V(g) |->
                                   MinI(d[p], d[<<p[1], k>>] + d[<<k, p[2]>>])]))
Dist(g) == TLCEval(FW(g, 0, D0(g)))                    \* Dist(g)[<<u,v>>], Inf if unreachable

\* hop distances restricted to an edge set S (BFS layers), used for spanners / girth
RECURSIVE HopLayers(_, _, _, _, _)
HopLayers(g, S, seen, frontier, k) ==
  IF frontier = {} THEN <<>>
  ELSE LET new == {x \in V(g) : x \notin seen /\ \E i \in S : \E v \in frontier :
                                      Inc(g, i, v) /\ Other(g, i, v) = x}
       IN <<frontier>> \o HopLayers(g, S, seen \cup new, new, k + 1)
\* HopDist(g, S, s)[v] = number of edges of a shortest s-v path inside S, Inf if none
HopDist(g, S, s) ==
  LET layers == HopLayers(g, S, {s}, {s}, 0)
  IN TLCEval([v \in V(g) |-> IF \E k \in 1..Len(layers) : v \in layers[k]
                               THEN (CHOOSE k \in 1..Len(layers) : v \in layers[k]) - 1
                               ELSE Inf])

\* length (number of edges) of a shortest cycle inside S, Inf for a forest
Girth(g, S) ==
  LET through(i) == LET d == HopDist(g, S \ {i}, Src(g, i))[Dst(g, i)]
                    IN IF d >= Inf THEN Inf ELSE d + 1
  IN IF S = {} THEN Inf ELSE Min({through(i) : i \in S})

=============================================================================
