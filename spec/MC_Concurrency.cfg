CONSTANTS HW = 16 VALUES = {1,2,3,16,20} MAXCALLS = 3 Shape = "held"
SPECIFICATION Spec
INVARIANTS KnobEffective AtMostOneHeld
CHECK_DEADLOCK FALSE
