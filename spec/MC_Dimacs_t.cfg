CONSTANTS NV = 1 NL = 3 WS = {1000}
SPECIFICATION DSpec
INVARIANTS EdgesInOrder EndpointsDeclared MachineMatchesRun
CHECK_DEADLOCK FALSE
