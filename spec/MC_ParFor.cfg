CONSTANTS CSD = 5 FirstOffset = 1
INIT Init
NEXT Next
INVARIANT NoConflict
CHECK_DEADLOCK FALSE
