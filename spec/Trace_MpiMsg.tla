---------------------------- MODULE Trace_MpiMsg ----------------------------
(***************************************************************************)
(* Message-level binding of the MPI entry points (C04) to MC_Sva and       *)
(* MpiProto.  The vmpi shim sees every payload that crosses a collective,  *)
(* so the support vector of every phase IS logged here (in Trace_Sva TLC   *)
(* has to infer it): one run is                                            *)
(*     Run ; [Coll scatter] ; ( Coll broadcast(S_k) ; [Coll reduce] )* ; End *)
(* and is replayed as a behaviour of MC_Sva: the broadcast vector must be   *)
(* one of the model's remaining supports (position j is inferred: the swap  *)
(* is left open), every rank's contribution to the reduction must be an     *)
(* element of the cycle space with odd intersection with S_k and the        *)
(* weight it claims, the result must be the minimum of the contributions    *)
(* and a minimum odd cycle for S_k, rank 0 must emit exactly that cycle,    *)
(* and PhaseC(j, C) - the model's own action - produces the next state.     *)
(* The sequence of collectives must be the program of MpiProto (LibProg):   *)
(* trees variants scatter once (ceil-stride chunks of distinct candidates)  *)
(* and reduce in every phase; the signed variant reduces iff the support    *)
(* has more than one element.                                              *)
(* All of this is STRONGER than C04 (another correct distributed algorithm  *)
(* could exchange other messages), so a rejection is a "message anomaly"    *)
(* in the evidence and never a VIOLATION on its own.                        *)
(***************************************************************************)
EXTENDS MC_Sva, Json, IOUtils
Tr == ndJsonDeserialize(IOEnv.TRACE)
VARIABLES l, cl, skip, run, proto, curJ
tvars == <<l, cl, skip, run, proto, curJ, pc, G, out, basis, phase, S, forest>>
Report(v) == IF v = {} THEN TRUE ELSE PrintT(<<"REJECT", cl, l, v>>)
GraphOf(ev) == [n |-> ev.n, edges |-> ev.edges]
NoRun == [rev |-> <<>>, cycles |-> <<>>, P |-> 0, variant |-> "none", ranks |-> <<>>]
\* forest index (0-based) -> edge (1-based insertion index); 0 = not an index
EdgeOf(i) == IF i >= 0 /\ i < Len(run.rev) THEN run.rev[i + 1] ELSE 0
EdgesOf(s) == {EdgeOf(s[k]) : k \in 1..Len(s)}
Sum(s) == FoldSeq(LAMBDA x, a : a + x, 0, s)
Max2(a, b) == IF a > b THEN a ELSE b
Min2(a, b) == IF a < b THEN a ELSE b

TInit == /\ l = 1 /\ cl = 0 /\ skip = TRUE /\ run = NoRun /\ proto = "none" /\ curJ = 0
         /\ pc = "idle" /\ G = EmptyGraph /\ out = <<>> /\ basis = <<>> /\ phase = 0 /\ S = <<>> /\ forest = {}

RunViol(ev) ==
  LET g == GraphOf(ev)
      m == Len(ev.edges)
      revs == {ev.rev[k] : k \in 1..Len(ev.rev)}
  IN IF ~InDomain(g) \/ m > 12 THEN {"bad-input"}
     ELSE (IF Len(ev.rev) # m \/ revs # 1..m THEN {"forest-index-not-a-bijection"}
           ELSE IF ev.N # Dim(g) \/ ~IsSpanningForest(g, {ev.rev[k] : k \in (ev.N + 1)..m}) THEN {"forest-index-not-a-spanning-forest"} ELSE {})
TRun(ev) ==
  /\ ev.e = "Run" /\ cl' = l /\ curJ' = 0
  /\ LET v == RunViol(ev) IN
     IF v = {} THEN
        /\ G' = GraphOf(ev) /\ forest' = {ev.rev[k] : k \in (ev.N + 1)..Len(ev.rev)}
        /\ S' = [k \in 1..ev.N |-> {ev.rev[k]}]
        /\ pc' = "run" /\ out' = <<>> /\ basis' = <<>> /\ phase' = 0
        /\ run' = ev /\ skip' = FALSE /\ proto' = (IF ev.variant = "trees" THEN "scatter" ELSE "bcast")
     ELSE /\ PrintT(<<"REJECT", l, l, v>>) /\ skip' = TRUE /\ run' = NoRun /\ proto' = "none"
          /\ UNCHANGED <<pc, G, out, basis, phase, S, forest>>

Stay(v) == /\ Report(v) /\ skip' = TRUE /\ UNCHANGED <<run, proto, curJ, pc, G, out, basis, phase, S, forest>>

\* ---- scatter (trees variants): rank 0 deals the candidate (root vertex, forest index) pairs in ceil-stride chunks ----
ScatterViol(ev) ==
  LET ch == ev.val
      sizes == [r \in 1..Len(ch) |-> Len(ch[r])]
      total == Sum(sizes)
      stride == (total + run.P - 1) \div run.P
      flat == UNION {{ch[r][k] : k \in 1..Len(ch[r])} : r \in 1..Len(ch)}
  IN   (IF proto # "scatter" THEN {"collective-out-of-sequence"} ELSE {})
  \cup (IF ev.root # 0 THEN {"root-is-not-rank-0"} ELSE {})
  \cup (IF Len(ch) # run.P THEN {"scatter-chunk-count"}
        ELSE IF \E r \in 1..run.P : sizes[r] # Max2(0, Min2(stride, total - (r - 1) * stride)) THEN {"scatter-not-ceil-stride"} ELSE {})
  \cup (IF Cardinality(flat) # total THEN {"scatter-duplicate-candidate"} ELSE {})
  \cup (IF \E c \in flat : ~(c[1] \in V(G) /\ EdgeOf(c[2]) \in EIdx(G)) THEN {"scatter-bad-candidate"} ELSE {})
TScatter(ev) ==
  /\ ev.kind = "scatter"
  /\ LET v == ScatterViol(ev) IN
     IF v = {} THEN proto' = "bcast" /\ UNCHANGED <<skip, run, curJ, pc, G, out, basis, phase, S, forest>>
     ELSE Stay(v)

\* ---- broadcast of the support vector of phase k = phase + 1 ------------------------------------------------------
PhaseCycle == SeqToSet(run.cycles[phase + 1])
Js(Sk) == {j \in (phase + 1)..Len(S) : S[j] = Sk}
BcastViol(ev) ==
  LET Sk == EdgesOf(ev.val) IN
       (IF proto # "bcast" THEN {"collective-out-of-sequence"} ELSE {})
  \cup (IF ev.root # 0 THEN {"root-is-not-rank-0"} ELSE {})
  \cup (IF phase >= Len(S) THEN {"more-phases-than-dimension"}
        ELSE (IF Js(Sk) = {} THEN {"support-is-not-a-support-of-the-model"} ELSE {})
             \cup (IF Len(run.cycles) < phase + 1 THEN {"phase-without-emitted-cycle"} ELSE {}))
SingleEdgeBranch(ev) == run.variant = "signed" /\ Len(ev.val) = 1
TBcast(ev) ==
  /\ ev.kind = "broadcast"
  /\ LET v == BcastViol(ev) IN
     IF v # {} THEN Stay(v)
     ELSE LET Sk == EdgesOf(ev.val)
              j == CHOOSE x \in Js(Sk) : TRUE
          IN IF SingleEdgeBranch(ev)
             THEN \* no reduction: rank 0 searches alone, the cycle is the one it emits
                  IF PhaseCycle \in MinOddCycles(Sk)
                  THEN PhaseC(j, PhaseCycle) /\ UNCHANGED <<skip, run, proto, curJ>>
                  ELSE Stay({"phase-cycle-not-a-minimum-odd-cycle"})
             ELSE proto' = "reduce" /\ curJ' = j /\ UNCHANGED <<skip, run, pc, G, out, basis, phase, S, forest>>

\* ---- reduction of the per-rank minimum odd cycles --------------------------------------------------------------------
ContribViol(c, Sk) ==
  IF ~c.ok THEN {}
  ELSE LET C == EdgesOf(c.edges) IN
            (IF Len(c.edges) # Cardinality(C) THEN {"contribution-duplicate-edge"} ELSE {})
       \cup (IF ~(C \subseteq EIdx(G)) THEN {"contribution-foreign-edge"}
             ELSE (IF ~(Even(G, C) /\ Odd(C, Sk)) THEN {"contribution-not-an-odd-cycle"} ELSE {})
                  \cup (IF c.w # Wt(G, C) THEN {"contribution-weight"} ELSE {}))
ReduceViol(ev) ==
  IF proto # "reduce" THEN {"collective-out-of-sequence"}
  ELSE LET Sk == S[curJ]
           oks == {i \in 1..Len(ev.ins) : ev.ins[i].ok}
       IN   (IF ev.root # 0 THEN {"root-is-not-rank-0"} ELSE {})
       \cup (IF Len(ev.ins) # run.P THEN {"reduce-contribution-count"} ELSE {})
       \cup UNION {ContribViol(ev.ins[i], Sk) : i \in 1..Len(ev.ins)}
       \cup (IF ev.out.ok # (oks # {}) THEN {"reduce-result-not-minimum-of-contributions"}
             ELSE IF oks = {} THEN {"no-rank-found-an-odd-cycle"}
             ELSE (IF ev.out.w # Min({ev.ins[i].w : i \in oks}) \/ ~\E i \in oks : ev.ins[i] = ev.out
                   THEN {"reduce-result-not-minimum-of-contributions"} ELSE {})
                  \cup (IF PhaseCycle # EdgesOf(ev.out.edges) THEN {"emitted-cycle-is-not-the-reduce-result"} ELSE {})
                  \cup (IF ~(PhaseCycle \subseteq EIdx(G)) \/ PhaseCycle \notin MinOddCycles(Sk) THEN {"phase-cycle-not-a-minimum-odd-cycle"} ELSE {}))
TReduce(ev) ==
  /\ ev.kind = "reduce"
  /\ LET v == ReduceViol(ev) IN
     IF v # {} THEN Stay(v)
     ELSE PhaseC(curJ, PhaseCycle) /\ proto' = "bcast" /\ UNCHANGED <<skip, run, curJ>>

TOtherColl(ev) == ev.kind \notin {"scatter", "broadcast", "reduce"} /\ Stay({"unexpected-collective"})

TColl(ev) ==
  /\ ev.e = "Coll" /\ UNCHANGED cl
  /\ IF skip THEN UNCHANGED <<skip, run, proto, curJ, pc, G, out, basis, phase, S, forest>>
     ELSE TScatter(ev) \/ TBcast(ev) \/ TReduce(ev) \/ TOtherColl(ev)

EndViol ==
       (IF \E k \in 1..Len(run.ranks) : ~run.ranks[k].returned THEN {"rank-did-not-return"} ELSE {})
  \cup (IF \E k \in 1..Len(run.ranks) : run.ranks[k].rank # 0 /\ run.ranks[k].ncyc # 0 THEN {"non-root-rank-emitted"} ELSE {})
  \cup (IF proto = "reduce" THEN {"phase-without-reduce"} ELSE {})
  \cup (IF proto = "scatter" THEN {"trees-variant-without-scatter"} ELSE {})
  \cup (IF phase # Len(S) \/ Len(run.cycles) # Len(S) THEN {"phases-ne-dimension"} ELSE {})
TEnd(ev) ==
  /\ ev.e = "End" /\ UNCHANGED cl
  /\ (IF skip THEN TRUE ELSE Report(EndViol))
  /\ skip' = TRUE /\ run' = NoRun /\ proto' = "none" /\ curJ' = 0 /\ pc' = "idle"
  /\ UNCHANGED <<G, out, basis, phase, S, forest>>
TOther(ev) == /\ ev.e \in {"Crash", "LayoutError"} /\ UNCHANGED cl
              /\ (IF ev.e = "Crash" THEN Report({"crash"}) ELSE PrintT(<<"LAYOUTERROR", l>>))
              /\ skip' = TRUE /\ run' = NoRun /\ proto' = "none" /\ curJ' = 0 /\ pc' = "idle"
              /\ UNCHANGED <<G, out, basis, phase, S, forest>>
TNext == /\ l <= Len(Tr) /\ l' = l + 1
         /\ LET ev == Tr[l] IN TRun(ev) \/ TColl(ev) \/ TEnd(ev) \/ TOther(ev)
TSpec == TInit /\ [][TNext]_tvars
Accepted == TLCGet("stats").diameter - 1 = Len(Tr)
\* on every state of every replayed run: the model's own invariants
Orth == pc = "run" => Orthogonal
=============================================================================
