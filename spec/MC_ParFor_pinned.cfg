CONSTANTS CSD = 5 FirstOffset = 0
INIT Init
NEXT Next
INVARIANT NoConflict
CHECK_DEADLOCK FALSE
