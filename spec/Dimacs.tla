------------------------------- MODULE Dimacs -------------------------------
(***************************************************************************)
(* C10.  read_dimacs_from_file as a line-by-line state machine over an     *)
(* ABSTRACT file: a sequence of lines                                       *)
(*    [k |-> "c"]                      comment ('c' or '#')                 *)
(*    [k |-> "p", n |-> N, m |-> M]    problem line, declares vertices 1..N *)
(*    [k |-> "e", s, t, w]             edge line ('e' or 'a'), w in 1/1000  *)
(*                                     units, w = -1000000 means "omitted"  *)
(* plus the flag nl (does the last line end with a newline).  The concrete  *)
(* spelling (tag letter, spacing, integer vs decimal notation) is chosen by *)
(* the replay driver and must not matter, nor must nl.                      *)
(* The reader state is (n, edges, failed); one action per line.             *)
(***************************************************************************)
EXTENDS DimacsOps
VARIABLES file, pos, rn, redges, failed
dvars == <<file, pos, rn, redges, failed>>

\* ---- the reader as a state machine over all small files (MC_Dimacs) ---------------------
CONSTANTS NV, NL, WS
Lines == {[k |-> "c"]} \cup {[k |-> "e", s |-> s, t |-> t, w |-> w] : s \in 0..(NV + 1), t \in 0..(NV + 1), w \in WS \cup {Omitted}}   \* 0 and NV + 1 are never declared
Files == UNION {{[lines |-> <<[k |-> "p", n |-> n, m |-> 0]>> \o body, nl |-> nl] :
                   body \in [1..len -> Lines], n \in 0..NV, nl \in BOOLEAN} : len \in 0..NL}
DInit == file \in Files /\ pos = 1 /\ rn = 0 /\ redges = <<>> /\ failed = FALSE
ReadLine == /\ pos <= Len(file.lines) /\ ~failed
            /\ LET st == Step([n |-> rn, edges |-> redges, failed |-> FALSE, declared |-> 1..rn], file.lines[pos])
               IN rn' = st.n /\ redges' = st.edges /\ failed' = st.failed
            /\ pos' = pos + 1 /\ UNCHANGED file
DNext == ReadLine
DSpec == DInit /\ [][DNext]_dvars
\* invariants: edges appear in file order, only declared endpoints, count = number of edge lines consumed
EdgesInOrder == Len(redges) = Cardinality({i \in 1..(pos - 1) : file.lines[i].k = "e"}) - (IF failed THEN 1 ELSE 0)
EndpointsDeclared == \A i \in 1..Len(redges) : redges[i][1] \in 0..(rn - 1) /\ redges[i][2] \in 0..(rn - 1)
MachineMatchesRun == (pos > Len(file.lines) \/ failed) =>
                        LET x == Expected(file) IN x.failed = failed /\ (~failed => x.n = rn /\ x.edges = redges)
=============================================================================
