----------------------------- MODULE Components -----------------------------
(***************************************************************************)
(* Abstract (API-level) specifications of the building blocks, as sets of  *)
(* violated clauses of one observed result: ForestIndex (C16), greedy_fvs  *)
(* (C13), shortest-path trees (C12), candidate collections (C14).  Pure    *)
(* operators; used as action guards by the trace specification and as the  *)
(* refinement targets of the implementation-shaped models ForestIndex.tla, *)
(* Fvs.tla, LexSpt.tla.                                                    *)
(***************************************************************************)
EXTENDS CycleSpace

\* ---------------- C16 ForestIndex --------------------------------------------------
\* r = [idx |-> seq, rev |-> seq (1-based position i holds edge with index i-1), onforest |-> seq of 0/1, k, csd]
ForestViol(g, r) ==
  LET m == M(g)
      F == {e \in EIdx(g) : r.onforest[e] = 1}
  IN   (IF Len(r.idx) # m \/ Len(r.rev) # m \/ Len(r.onforest) # m THEN {"shape"}
        ELSE
             (IF {r.idx[e] : e \in EIdx(g)} # 0..(m-1) THEN {"idx-not-bijective"} ELSE {})
        \cup (IF \E e \in EIdx(g) : r.idx[e] \in 0..(m-1) /\ r.rev[r.idx[e] + 1] # e THEN {"lookups-not-inverse"} ELSE {})
        \cup (IF \E i \in 1..m : r.rev[i] \notin EIdx(g) THEN {"rev-foreign-edge"} ELSE {})
        \cup (IF \E e \in EIdx(g) : (r.onforest[e] = 1) # (r.idx[e] >= r.csd) THEN {"onforest-vs-index"} ELSE {})
        \cup (IF ~IsSpanningForest(g, F) THEN {"not-spanning-forest"} ELSE {}))
  \cup (IF r.k # Comp(g) THEN {"components"} ELSE {})
  \cup (IF r.csd # Dim(g) THEN {"dimension"} ELSE {})


\* families with more than 2^8 / 2^16 vertices or edges (h_comp forest_family): the edge list is implied by (fam, a, b)
ForestFamViol(r) ==
  LET m == Len(r.idx)
      expM == CASE r.fam = "path" -> r.a - 1 [] r.fam = "star" -> r.a - 1 [] r.fam = "cycle" -> r.a
                [] r.fam = "twocycles" -> 2 * r.a [] OTHER -> r.b
      expN == IF r.fam = "twocycles" THEN 2 * r.a ELSE r.a
      expK == CASE r.fam \in {"path", "star", "cycle"} -> 1 [] r.fam = "twocycles" -> 2 [] OTHER -> r.a - r.b
      off == {e \in 1..m : r.onforest[e] = 0}
  IN   (IF m # expM \/ Len(r.rev) # m \/ Len(r.onforest) # m \/ r.n # expN THEN {"shape"}
        ELSE
             (IF {r.idx[e] : e \in 1..m} # 0..(m-1) THEN {"idx-not-bijective"} ELSE {})
        \cup (IF \E e \in 1..m : r.idx[e] \in 0..(m-1) /\ r.rev[r.idx[e] + 1] # e THEN {"lookups-not-inverse"} ELSE {})
        \cup (IF \E e \in 1..m : (r.onforest[e] = 1) # (r.idx[e] >= r.csd) THEN {"onforest-vs-index"} ELSE {})
        \cup (IF Cardinality(off) # expM - expN + expK
                 \/ (r.fam = "twocycles" /\ ~(\E e \in off : e <= r.a) /\ off # {})
                 \/ (r.fam = "twocycles" /\ ~(\E e \in off : e > r.a) /\ off # {})
              THEN {"not-spanning-forest"} ELSE {}))
  \cup (IF r.k # expK THEN {"components"} ELSE {})
  \cup (IF r.csd # expM - expN + expK THEN {"dimension"} ELSE {})

\* ---------------- C13 greedy_fvs ---------------------------------------------------
\* abstract: out is a sequence of vertices
FvsViol(g, out) ==
  LET S == {out[k] : k \in 1..Len(out)}
      rest == {e \in EIdx(g) : Src(g, e) \notin S /\ Dst(g, e) \notin S}
  IN   (IF ~(S \subseteq V(g)) THEN {"not-a-vertex"} ELSE {})
  \cup (IF Cardinality(S) # Len(out) THEN {"duplicate-vertex"} ELSE {})
  \cup (IF ~IsForest(g, rest) THEN {"remaining-graph-has-cycle"} ELSE {})
  \cup (IF IsForest(g, EIdx(g)) /\ Len(out) # 0 THEN {"forest-but-nonempty"} ELSE {})


\* families too large to be logged edge by edge (see h_comp fvs_family): closed forms of "G - S has a cycle"
\*   wheel a    : hub 0, rim 1..a in a cycle, spokes.   hubtri a b : hub 0, triangles (0, 2i-1, 2i), leaves 2a+1..2a+b
FvsFamViol(ev) ==
  LET S == {ev.out[k] : k \in 1..Len(ev.out)}
      n == IF ev.fam = "wheel" THEN ev.a + 1 ELSE 2 * ev.a + ev.b + 1
      nxt(i) == IF i = ev.a THEN 1 ELSE i + 1
      cyc == IF ev.fam = "wheel"
               THEN IF 0 \in S THEN \A i \in 1..ev.a : i \notin S
                    ELSE \E i \in 1..ev.a : i \notin S /\ nxt(i) \notin S
               ELSE 0 \notin S /\ \E i \in 1..ev.a : (2 * i - 1) \notin S /\ (2 * i) \notin S
  IN   (IF ~(S \subseteq 0..(n - 1)) THEN {"not-a-vertex"} ELSE {})
  \cup (IF Cardinality(S) # Len(ev.out) THEN {"duplicate-vertex"} ELSE {})
  \cup (IF cyc THEN {"remaining-graph-has-cycle"} ELSE {})

\* ---------------- C12 shortest-path trees ------------------------------------------
\* t = [s |-> root, dist |-> seq (position v+1; -1 = no node; -2 = not exactly representable),
\*      pred |-> seq of edge indices (0 = none), first |-> seq of vertices (-1 = no node)]
TD(t, v) == t.dist[v + 1]
TP(t, v) == t.pred[v + 1]
TF(t, v) == t.first[v + 1]
HasNode(t, v) == TD(t, v) # -1
RECURSIVE PathUp(_, _, _, _)
PathUp(g, t, v, fuel) ==
  IF v = t.s \/ TP(t, v) \notin EIdx(g) \/ fuel = 0 \/ ~Inc(g, TP(t, v), v) THEN {}
  ELSE {TP(t, v)} \cup PathUp(g, t, Other(g, TP(t, v), v), fuel - 1)
TreePath(g, t, v) == PathUp(g, t, v, g.n)            \* edge set of the tree path root -> v
VerticesOn(g, P, root) == {root} \cup UNION {Ends(g, e) : e \in P}

\* one tree against the true distances d = Dist(g)
TreeViol(g, d, t) ==
  LET s == t.s
      reach == {v \in V(g) : d[<<s, v>>] < Inf}
  IN   (IF Len(t.dist) # g.n \/ Len(t.pred) # g.n \/ Len(t.first) # g.n \/ s \notin V(g) THEN {"shape"}
        ELSE
             (IF \E v \in V(g) : HasNode(t, v) # (v \in reach) THEN {"node-vs-reachability"} ELSE {})
        \cup (IF \E v \in reach : TD(t, v) # d[<<s, v>>] THEN {"distance"} ELSE {})
        \cup (IF TP(t, s) # 0 THEN {"root-has-pred"} ELSE {})
        \cup (IF \E v \in reach \ {s} :
                   LET e == TP(t, v) IN
                   ~(e \in EIdx(g) /\ Inc(g, e, v) /\ Other(g, e, v) \in reach
                     /\ d[<<s, Other(g, e, v)>>] + W(g, e) = d[<<s, v>>])
              THEN {"pred-not-a-shortest-path-tree"} ELSE {})
        \cup (IF TF(t, s) # s \/
                 \E v \in reach \ {s} :
                   LET e == TP(t, v) IN
                   e \in EIdx(g) /\ Inc(g, e, v) /\
                   TF(t, v) # (IF Other(g, e, v) = s THEN v ELSE TF(t, Other(g, e, v)))
              THEN {"first-on-path"} ELSE {}))

\* all trees of a graph (one per source): per-tree clauses + mutual consistency
SptViol(g, trees) ==
  LET d == Dist(g)
      per == UNION {TreeViol(g, d, trees[k]) : k \in 1..Len(trees)}
      T(u) == trees[CHOOSE k \in 1..Len(trees) : trees[k].s = u]
      srcs == {trees[k].s : k \in 1..Len(trees)}
      P == TLCEval([p \in srcs \X V(g) |-> TreePath(g, T(p[1]), p[2])])
  IN   per
  \cup (IF per # {} THEN {}
        ELSE (IF Cardinality(srcs) # Len(trees) THEN {"duplicate-source"} ELSE {})
        \cup (IF \E u \in srcs, v \in srcs : d[<<u, v>>] < Inf /\ P[<<u, v>>] # P[<<v, u>>]
              THEN {"path-not-reversal-symmetric"} ELSE {})
        \cup (IF \E u \in srcs, v \in V(g) : d[<<u, v>>] < Inf /\
                  \E x \in (VerticesOn(g, P[<<u, v>>], u) \cap srcs) : ~(P[<<x, v>>] \subseteq P[<<u, v>>])
              THEN {"subpath-not-chosen-path"} ELSE {}))

\* stars with more than 2^8 / 2^16 vertices (h_comp spt_family): closed form of the unique shortest-path tree.
\* star a: centre 0, leaves 1..a-1, edge i joins 0 and i; star2 a: a second star on a..2a-1 (centre a), unreachable from the first
SptFamTreeViol(r, t) ==
  LET s == t.s
      w == r.b
      inFirst(v) == v < r.a
      expD(v) == IF ~inFirst(v) THEN -1 ELSE IF v = s THEN 0 ELSE IF s = 0 \/ v = 0 THEN w ELSE 2 * w
      expP(v) == IF ~inFirst(v) \/ v = s THEN 0 ELSE IF v = 0 THEN s ELSE v
      expF(v) == IF ~inFirst(v) THEN -1 ELSE IF v = s THEN s ELSE IF s = 0 THEN v ELSE 0
  IN IF Len(t.dist) # r.n \/ Len(t.pred) # r.n \/ Len(t.first) # r.n THEN {"shape"}
     ELSE (IF \E v \in 0..(r.n - 1) : (t.dist[v + 1] = -1) # (expD(v) = -1) THEN {"node-vs-reachability"} ELSE {})
     \cup (IF \E v \in 0..(r.n - 1) : t.dist[v + 1] # expD(v) THEN {"distance"} ELSE {})
     \cup (IF \E v \in 0..(r.n - 1) : t.pred[v + 1] # expP(v) THEN {"pred-not-a-shortest-path-tree"} ELSE {})
     \cup (IF \E v \in 0..(r.n - 1) : t.first[v + 1] # expF(v) THEN {"first-on-path"} ELSE {})
SptFamViol(r) == UNION {SptFamTreeViol(r, r.trees[k]) : k \in 1..Len(r.trees)}

\* ---------------- C14 candidate collections ----------------------------------------
\* c = [trees |-> seq of trees, cands |-> seq of <<root, edge, weight>>]
CandCycle(g, t, e) == TreePath(g, t, Src(g, e)) \cup TreePath(g, t, Dst(g, e)) \cup {e}
CandViol(g, c, k) ==
  LET cd == c.cands[k]
      r == cd[1]
      e == cd[2]
      ts == {j \in 1..Len(c.trees) : c.trees[j].s = r}
  IN IF ts = {} THEN {"candidate-without-tree"}
     ELSE IF e \notin EIdx(g) THEN {"candidate-foreign-edge"}
     ELSE LET t == c.trees[CHOOSE j \in ts : TRUE]
              u == Src(g, e)
              v == Dst(g, e)
              Pu == TreePath(g, t, u)
              Pv == TreePath(g, t, v)
              C == Pu \cup Pv \cup {e}
          IN   (IF ~HasNode(t, u) \/ ~HasNode(t, v) THEN {"candidate-endpoint-unreachable"} ELSE {})
          \cup (IF TP(t, u) = e \/ TP(t, v) = e THEN {"candidate-is-tree-edge"} ELSE {})
          \cup (IF Pu \cap Pv # {} \/ ~IsSimpleCycle(g, C) \/ Deg(g, C, r) # 2
                THEN {"candidate-not-simple-cycle-through-root"} ELSE {})
          \cup (IF cd[3] # Wt(g, C) THEN {"candidate-weight"} ELSE {})
CandPairs(c) == {<<c.cands[k][1], c.cands[k][2]>> : k \in 1..Len(c.cands)}
CandCycles(g, c) ==
  {LET r == c.cands[k][1] e == c.cands[k][2]
       t == c.trees[CHOOSE j \in 1..Len(c.trees) : c.trees[j].s = r]
   IN CandCycle(g, t, e) : k \in {j \in 1..Len(c.cands) : c.cands[j][2] \in EIdx(g) /\
                                      \E i \in 1..Len(c.trees) : c.trees[i].s = c.cands[j][1]}}
CollSound(g, c, name) == UNION {{name \o ":" \o x : x \in CandViol(g, c, k)} : k \in 1..Len(c.cands)}
CollSufficient(g, c, name, opt) ==
  LET gr == Greedy(g, CandCycles(g, c))
  IN IF gr.d # Dim(g) THEN {name \o ":does-not-span-cycle-space"}
     ELSE IF gr.w # opt.w THEN {name \o ":no-minimum-basis-inside"} ELSE {}
CollViol(g, h, f, i) ==
  LET opt == Opt(g)
      snd == CollSound(g, h, "horton") \cup CollSound(g, f, "fvs") \cup CollSound(g, i, "iso")
  IN   snd
  \cup (IF ~(CandPairs(f) \subseteq CandPairs(h)) THEN {"fvs-not-subcollection-of-horton"} ELSE {})
  \cup (IF ~(CandPairs(i) \subseteq CandPairs(h)) THEN {"iso-not-subcollection-of-horton"} ELSE {})
  \cup (IF snd # {} THEN {}
        ELSE CollSufficient(g, h, "horton", opt) \cup CollSufficient(g, f, "fvs", opt) \cup CollSufficient(g, i, "iso", opt))

\* ---------------- C15 spanner -----------------------------------------------------
\* kept: seq of <<g-edge index, spanner source, spanner target, spanner weight>>; dropped: seq of g-edge indices
SpannerViol(g, k, kept, dropped) ==
  LET K == {kept[j][1] : j \in 1..Len(kept)}
      Dr == {dropped[j] : j \in 1..Len(dropped)}
  IN   (IF K \cup Dr # EIdx(g) \/ K \cap Dr # {} \/ Cardinality(K) # Len(kept) \/ Cardinality(Dr) # Len(dropped)
          THEN {"not-a-partition-of-the-edges"} ELSE {})
  \cup (IF \E j \in 1..Len(kept) : kept[j][1] \in EIdx(g) /\ {kept[j][2], kept[j][3]} # Ends(g, kept[j][1])
          THEN {"spanner-edge-joins-other-vertices"} ELSE {})
  \cup (IF \E j \in 1..Len(kept) : kept[j][1] \in EIdx(g) /\ kept[j][4] # W(g, kept[j][1])
          THEN {"spanner-weight-not-carried-over"} ELSE {})
  \cup (IF K \subseteq EIdx(g) /\ Dr \subseteq EIdx(g) THEN
             (IF \E e \in Dr : HopDist(g, {f \in K : W(g, f) <= W(g, e)}, Src(g, e))[Dst(g, e)] > 2 * k - 1
                THEN {"dropped-edge-without-short-light-path"} ELSE {})
        \cup (IF Girth(g, K) <= 2 * k THEN {"short-cycle-in-spanner"} ELSE {})
        ELSE {})


=============================================================================
