CONSTANTS N = 4 VMAX = 2
SPECIFICATION PSpec
INVARIANTS ResultCorrect SmallStepMatchesEval PartialSound
PROPERTY Terminates
CHECK_DEADLOCK FALSE
