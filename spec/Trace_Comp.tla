----------------------------- MODULE Trace_Comp -----------------------------
(* Trace specification for the component recorders (h_comp): every event is one atomic observation *)
(* of a public component and must be a result the abstract specification (Components.tla) allows.   *)
EXTENDS CollOps, Json, IOUtils
Tr == ndJsonDeserialize(IOEnv.TRACE)
VARIABLES l
GraphOf(ev) == [n |-> ev.n, edges |-> ev.edges]
Report(v) == IF v = {} THEN TRUE ELSE PrintT(<<"REJECT", l, l, v>>)
Viol(ev) ==
  IF ev.e = "Crash" THEN {"crash"} ELSE        \* (a crash caught by the signal handler carries no graph)
  IF ev.e = "FvsFam" THEN FvsFamViol(ev) ELSE
  IF ev.e = "ForestFam" THEN ForestFamViol(ev) ELSE
  IF ev.e = "SptFam" THEN SptFamViol(ev) ELSE  \* (a family described by parameters instead of an edge list)
  LET g == GraphOf(ev) IN
  IF ~InDomain(g) THEN {"bad-input"}
  ELSE CASE ev.e = "Forest" -> ForestViol(g, ev) \cup (IF ev.copy_same THEN {} ELSE {"copy-differs"})
                                              \cup (IF ev.assign_same THEN {} ELSE {"assigned-index-differs"})
                                              \cup (IF ev.orient_same THEN {} ELSE {"lookup-depends-on-orientation"})
         [] ev.e = "Fvs" -> FvsViol(g, ev.out)
         [] ev.e = "Spt" -> SptViol(g, ev.trees)
         [] ev.e = "Coll" -> CollViol(g, ev.horton, ev.fvs, ev.iso)
         [] ev.e = "Crash" -> {"crash"}
         [] OTHER -> {"unknown-event"}
\* Diagnostic binding of the implementation-shaped model Collections.tla to the code (never a verdict: a refactoring may
\* legitimately choose other shortest paths or other representatives): are the recorded Horton / isometric candidates
\* exactly those the model derives from the canonical lexicographic trees?
CollDiag(ev) ==
  LET g == GraphOf(ev)
      tr == TreesOf(g)
      H == HortonSeq(g, tr)
  IN   (IF CandPairs(ev.horton) # {H[i] : i \in 1..Len(H)} THEN {"horton-set-differs-from-model"} ELSE {})
  \cup (IF CandPairs(ev.iso) # IsoOut(g, tr) THEN {"iso-set-differs-from-model"} ELSE {})
DiagN == IF "DIAGN" \in DOMAIN IOEnv THEN atoi(IOEnv.DIAGN) ELSE 4        \* size limit for the (expensive) model comparison
Diag(ev) == IF ev.e = "Coll" /\ InDomain(GraphOf(ev)) /\ ev.n <= DiagN /\ ev.wt = "double"
              THEN PrintT(<<"DIAG", l, CollDiag(ev)>>) ELSE TRUE
TInit == l = 1
TNext == l <= Len(Tr) /\ l' = l + 1 /\ Report(Viol(Tr[l])) /\ Diag(Tr[l])
TSpec == TInit /\ [][TNext]_l
Accepted == TLCGet("stats").diameter - 1 = Len(Tr)
=============================================================================
