--------------------------- MODULE Trace_History ---------------------------
(* Trace specification for C08: Def events written by the driver and Call/Return events recorded from the code. *)
EXTENDS History, Json, IOUtils
Tr == ndJsonDeserialize(IOEnv.TRACE)
VARIABLES l, cl, cur
tvars == <<l, cl, cur, val, dim, defs>>
Report(v) == IF v = {} THEN TRUE ELSE PrintT(<<"REJECT", cl, l, v>>)
TInit == HInit /\ l = 1 /\ cl = 0 /\ cur = -1
TDef(ev) == /\ ev.e = "Def" /\ cl' = l /\ cur' = -1
            /\ LET v == DefViol(ev) \cup DriverViol(ev) IN
               IF DefViol(ev) = {} THEN Def(ev) /\ (v = {} \/ PrintT(<<"REJECT", l, l, v>>))
               ELSE PrintT(<<"REJECT", l, l, v>>) /\ UNCHANGED hvars
TCall(ev) == /\ ev.e = "Call" /\ cl' = l /\ cur' = ev.meta.gid /\ UNCHANGED hvars
TEmit(ev) == /\ ev.e = "Emit" /\ UNCHANGED <<cl, cur, val, dim, defs>>
TReturn(ev) ==
  /\ ev.e = "Return" /\ UNCHANGED <<cl, cur>>
  /\ LET v == RetViol(cur, ev) IN
     IF v = {} THEN Ret(cur, ev)
     ELSE Report(v) /\ UNCHANGED hvars
TCrash(ev) == ev.e = "Crash" /\ Report({"crash"}) /\ UNCHANGED <<cl, cur, val, dim, defs>>
TNext == /\ l <= Len(Tr) /\ l' = l + 1
         /\ LET ev == Tr[l] IN TDef(ev) \/ TCall(ev) \/ TEmit(ev) \/ TReturn(ev) \/ TCrash(ev)
TSpec == TInit /\ [][TNext]_tvars
Accepted == TLCGet("stats").diameter - 1 = Len(Tr)
=============================================================================
