----------------------------- MODULE Trace_ParFor -----------------------------
(* Trace specification for the data-race clause of C03: footprints of the tasks of every parallel region, recorded *)
(* by the vtbb shim (elements of live concurrent_vectors touched by a task / changed by a task).                     *)
EXTENDS ParFor, Json, IOUtils
Tr == ndJsonDeserialize(IOEnv.TRACE)
VARIABLES l
SetOfPairs(s) == {<<s[i][1], s[i][2]>> : i \in 1..Len(s)}
TasksOf(ev) == [i \in 1..Len(ev.tasks) |-> [touched |-> SetOfPairs(ev.tasks[i].touched), written |-> SetOfPairs(ev.tasks[i].written)]]
Report(v) == IF v = {} THEN TRUE ELSE PrintT(<<"REJECT", l, l, v>>)
TInit == l = 1 /\ k = 0 /\ cuts = {} /\ odd = {}
\* a pair of accesses to one memory location by two threads of a region that no synchronisation orders (reported by
\* ThreadSanitizer on the threaded shim): a conflict iff the threads differ and at least one access is a write
RaceViol(ev) == IF ev.a.thread # ev.b.thread /\ (ev.a.kind = "write" \/ ev.b.kind = "write") THEN {"conflicting-access-between-tasks"} ELSE {}
TNext == l <= Len(Tr) /\ l' = l + 1 /\ UNCHANGED fvars
         /\ Report(IF Tr[l].e = "Race" THEN RaceViol(Tr[l]) ELSE RegionViol(TasksOf(Tr[l])))
TSpec == TInit /\ [][TNext]_<<l, k, cuts, odd>>
Accepted == TLCGet("stats").diameter - 1 = Len(Tr)
=============================================================================
