------------------------------ MODULE SpVecGF2 ------------------------------
(***************************************************************************)
(* C17.  parmcb::SpVecGF2 as a register machine over dense GF(2) vectors.  *)
(* A register holds the SET of coordinates that are 1.  Every public       *)
(* operation of the class is one action; the abstract meaning is ordinary  *)
(* GF(2) arithmetic:  + is symmetric difference, * is parity of the        *)
(* intersection.  The observable projection of a register is the list the  *)
(* iterators produce, which must be the strictly increasing enumeration    *)
(* of the set, and size() its cardinality.                                 *)
(*                                                                         *)
(* The second half is an implementation-shaped model of the two-pointer    *)
(* merge loops of operator+ and operator* on sorted lists, checked against *)
(* the abstract meaning for every pair of vectors (MC_SpVecGF2).           *)
(***************************************************************************)
EXTENDS Naturals, Integers, Sequences, FiniteSets, TLC, FiniteSetsExt, SequencesExt
CONSTANTS R,      \* number of registers (0..R-1)
          D       \* dimension: coordinates 0..D-1

Regs == 0..(R-1)
Coords == 0..(D-1)
XorS(A, B) == (A \ B) \cup (B \ A)
Parity(A) == Cardinality(A) % 2
AsSet(s) == {s[k] : k \in 1..Len(s)}
StrictlyIncreasing(s) == \A k \in 1..(Len(s) - 1) : s[k] < s[k + 1]
Canonical(s, S) == StrictlyIncreasing(s) /\ AsSet(s) = S /\ Len(s) = Cardinality(S)

\* op = [op |-> name, d |-> dest, a |-> src1, b |-> src2, set |-> seq]   (unused fields arbitrary)
\* Effect(r, op) = [r |-> registers afterwards, res |-> value returned by * (or -1)]
Effect(r, o) ==
  CASE o.op = "Unit"       -> [r |-> [r EXCEPT ![o.d] = {o.a}], res |-> -1]            \* SpVecGF2(i)
    [] o.op = "FromSet"    -> [r |-> [r EXCEPT ![o.d] = AsSet(o.set)], res |-> -1]      \* SpVecGF2(std::set)
    [] o.op = "Default"    -> [r |-> [r EXCEPT ![o.d] = {}], res |-> -1]                \* SpVecGF2()
    [] o.op = "Copy"       -> [r |-> [r EXCEPT ![o.d] = r[o.a]], res |-> -1]            \* copy construction
    [] o.op = "Move"       -> [r |-> [r EXCEPT ![o.d] = r[o.a]], res |-> -1]            \* move construction (source unspecified, see MovedFrom)
    [] o.op = "Assign"     -> [r |-> [r EXCEPT ![o.d] = r[o.a]], res |-> -1]            \* operator=(const&), d = a allowed
    [] o.op = "MoveAssign" -> [r |-> [r EXCEPT ![o.d] = r[o.a]], res |-> -1]
    [] o.op = "Plus"       -> [r |-> [r EXCEPT ![o.d] = XorS(r[o.a], r[o.b])], res |-> -1]   \* r[d] = r[a] + r[b], any aliasing
    [] o.op = "PlusAssign" -> [r |-> [r EXCEPT ![o.d] = XorS(r[o.d], r[o.a])], res |-> -1]   \* r[d] += r[a], d = a allowed
    [] o.op = "Dot"        -> [r |-> r, res |-> Parity(r[o.a] \cap r[o.b])]
    [] o.op = "DotSet"     -> [r |-> r, res |-> Parity(r[o.a] \cap AsSet(o.set))]
    [] o.op = "Clear"      -> [r |-> [r EXCEPT ![o.d] = {}], res |-> -1]
    [] o.op = "Swap"       -> [r |-> [r EXCEPT ![o.d] = r[o.a], ![o.a] = r[o.d]], res |-> -1]  \* std::swap, used by the algorithms
\* registers whose content is unspecified after the operation (moved-from objects)
MovedFrom(o) == IF o.op \in {"Move", "MoveAssign"} /\ o.a # o.d THEN {o.a} ELSE {}

\* ---- abstract machine (used for generation: every (state, op) pair is a transition) -------------
VARIABLE r
Ops ==      {[op |-> "Unit", d |-> d, a |-> i, b |-> 0, set |-> <<>>] : d \in Regs, i \in Coords}
       \cup {[op |-> "FromSet", d |-> d, a |-> 0, b |-> 0, set |-> SetToSortSeq(S, <)] : d \in Regs, S \in SUBSET Coords}
       \cup {[op |-> x, d |-> d, a |-> a, b |-> 0, set |-> <<>>] : x \in {"Copy", "Assign", "PlusAssign"}, d \in Regs, a \in Regs}
       \cup {o \in {[op |-> x, d |-> d, a |-> a, b |-> 0, set |-> <<>>] : x \in {"Move", "MoveAssign", "Swap"}, d \in Regs, a \in Regs} : o.a # o.d \/ o.op # "Move"}   \* a = std::move(a) and swap(a, a) keep the value
       \cup {[op |-> "Plus", d |-> d, a |-> a, b |-> b, set |-> <<>>] : d \in Regs, a \in Regs, b \in Regs}
       \cup {[op |-> "Dot", d |-> 0, a |-> a, b |-> b, set |-> <<>>] : a \in Regs, b \in Regs}
       \cup {[op |-> "DotSet", d |-> 0, a |-> a, b |-> 0, set |-> SetToSortSeq(S, <)] : a \in Regs, S \in SUBSET Coords}
       \cup {[op |-> x, d |-> d, a |-> 0, b |-> 0, set |-> <<>>] : x \in {"Clear", "Default"}, d \in Regs}
Init == r = [i \in Regs |-> {}]
Do(o) == r' = [i \in Regs |-> IF i \in MovedFrom(o) THEN {} ELSE Effect(r, o).r[i]]
Next == \E o \in Ops : Do(o)
TypeOK == r \in [Regs -> SUBSET Coords]

=============================================================================
