-------------------------------- MODULE Build --------------------------------
(***************************************************************************)
(* C19.  Translation units and the one-definition rule.                    *)
(* A translation unit (TU) that includes one public header FIRST and       *)
(* ALONE either compiles or not; a compiled TU defines a set of STRONG     *)
(* external symbols (what `nm` prints as T/D/B/R; inline functions,        *)
(* templates and in-class definitions are weak/COMDAT and never clash).    *)
(* Linking a set of TUs succeeds iff no strong symbol is defined twice.    *)
(* Hence: "a program may include header H from several TUs" <=> the TU of  *)
(* H defines no strong symbol, and two different headers can be combined   *)
(* <=> their strong sets are disjoint.  The recorded Link events (real     *)
(* linker runs on sampled pairs) must agree with this rule; the rule then  *)
(* decides EVERY pair from the per-TU observations.                        *)
(***************************************************************************)
EXTENDS Naturals, Sequences, FiniteSets, TLC
VARIABLES tus      \* name -> [header, cfg, ok, strong]
bvars == <<tus>>
BInit == tus = <<>>
SetOf(s) == {s[k] : k \in 1..Len(s)}
Compile(ev) == tus' = tus @@ (ev.tu :> [header |-> ev.header, cfg |-> ev.cfg, ok |-> ev.ok, strong |-> SetOf(ev.strong)])
CompileViol(ev) == IF ev.ok THEN {} ELSE {"header-does-not-compile-alone"}
\* predicted outcome of linking the TUs named in s (each once, or the same TU twice = two TUs including that header)
Clash(a, b) == IF a = b THEN tus[a].strong ELSE tus[a].strong \cap tus[b].strong
LinksOK(s) == \A i, j \in 1..Len(s) : i < j => Clash(s[i], s[j]) = {}
LinkViol(ev) ==
  IF \E k \in 1..Len(ev.tus) : ev.tus[k] \notin DOMAIN tus \/ ~tus[ev.tus[k]].ok THEN {}
  ELSE (IF ev.ok # LinksOK(ev.tus) THEN {"linker-disagrees-with-odr-rule"} ELSE {})
       \cup (IF ~ev.ok THEN {"multiple-definition-at-link"} ELSE {})
\* two public headers in ONE translation unit: the second must still contribute what it contributes alone (it enters the same
\* parmcb files and its own text does not vanish) - an include-guard clash or a leaked macro makes it silently empty
PairViol(ev) ==
  IF Len(ev.missing) # 0 \/ (ev.own_alone > 0 /\ ev.own_after = 0) THEN {"header-suppressed-by-an-earlier-header"} ELSE {}
\* a program of two translation units that both include the umbrella header and INSTANTIATE the entry points available in the
\* configuration (templates are only checked when instantiated): it must compile, link and run
UseViol(ev) == IF ev.compiled /\ ev.linked /\ ev.ran THEN {} ELSE {"entry-points-unusable-in-configuration"}
\* every pair of compiled TUs of one configuration, including a header with itself
AllPairsViol(cfg) ==
  LET names == {t \in DOMAIN tus : tus[t].ok /\ tus[t].cfg = cfg}
      bad == {p \in names \X names : Clash(p[1], p[2]) # {}}
  IN IF bad = {} THEN {} ELSE {"non-inline-definition-in-header"}
=============================================================================
