CONSTANTS N = 6
SPECIFICATION GSpec
INVARIANTS DegreeInv FvsRefines NoCycleLeftWhenDone
CHECK_DEADLOCK FALSE
