CONSTANTS N = 4 WS = {1,2}
INIT Init
NEXT Next
INVARIANTS AllVertices OptimumIsSimple HiddenEdges
CHECK_DEADLOCK FALSE
