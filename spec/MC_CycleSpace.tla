---------------------------- MODULE MC_CycleSpace ----------------------------
(***************************************************************************)
(* Cross-validation of the oracles by exhaustive evaluation (one initial   *)
(* state per graph, the theorems are state invariants):                    *)
(*   T1  OptHorton = OptBrute (weight, dimension, sorted weight vector)    *)
(*   T2  greedy dimension = m - n + c                                      *)
(*   T3  no cycle basis is lighter than the greedy one (exhaustive over    *)
(*       all Dim-subsets of simple cycles, only for tiny graphs)           *)
(*   T4  IsSimpleCycle = minimal non-empty even set                        *)
(***************************************************************************)
EXTENDS GraphGen
CONSTANTS N, WS, CheckAllBases
VARIABLE g
Init == g \in AllSimple(N, WS)
Next == UNCHANGED g
T1 == LET a == OptBrute(g) b == OptHorton(g) IN a.w = b.w /\ a.d = b.d /\ a.ws = b.ws
T2 == OptBrute(g).d = Dim(g)
SimpleCycles == {C \in CycleSpaceOf(g) : IsSimpleCycle(g, C)}
T3 == CheckAllBases =>
        LET opt == OptBrute(g).w
            d == Dim(g)
        IN \A B \in kSubset(d, SimpleCycles) :
              LET cs == SetToSeq(B) IN Independent(cs) => SumWt(g, cs) >= opt
T4 == \A C \in CycleSpaceOf(g) :
        IsSimpleCycle(g, C) <=> (C # {} /\ \A T \in (SUBSET C) \ {{}, C} : ~Even(g, T))
=============================================================================
