------------------------------- MODULE ExtGcd -------------------------------
(***************************************************************************)
(* C18, implementation-shaped: the loop of fp<T>::ext_gcd (fp.hpp) as a    *)
(* state machine, one action per iteration, for every (a, b) in -K..K.     *)
(* Variant = "fixed" is the code as it stands after the "fix:" commit      *)
(* (x gets the sign of a in the b = 0 special case); Variant = "pinned"    *)
(* reproduces the pinned commit, where that branch used the sign of b -    *)
(* kept as a named deviation so that MC_ExtGcd_pinned.cfg demonstrates     *)
(* that TLC refutes it (self-test of the invariant's sensitivity).         *)
(***************************************************************************)
EXTENDS FpArith
CONSTANTS K, Variant
VARIABLES A, B,            \* the caller's arguments
          pc, aa, xx, yy, i, swap, rg, rx, ry
evars == <<A, B, pc, aa, xx, yy, i, swap, rg, rx, ry>>
Sg(v) == IF v < 0 THEN -1 ELSE 1
EInit == /\ A \in -K..K /\ B \in -K..K /\ ~(A = 0 /\ B = 0)
         /\ pc = "start" /\ aa = <<0, 0>> /\ xx = <<1, 0>> /\ yy = <<0, 1>> /\ i = 1 /\ swap = FALSE
         /\ rg = 0 /\ rx = 0 /\ ry = 0
Start == /\ pc = "start"
         /\ IF A = 0 THEN pc' = "done" /\ rg' = Abs(B) /\ ry' = Sg(B) /\ rx' = 0 /\ UNCHANGED <<aa, swap>>
            ELSE IF B = 0 THEN /\ pc' = "done" /\ rg' = Abs(A) /\ ry' = 0
                               /\ rx' = IF Variant = "pinned" THEN Sg(B) ELSE Sg(A)
                               /\ UNCHANGED <<aa, swap>>
            ELSE /\ pc' = "loop" /\ swap' = (Abs(B) > Abs(A))
                 /\ aa' = IF Abs(B) > Abs(A) THEN <<Abs(B), Abs(A)>> ELSE <<Abs(A), Abs(B)>>
                 /\ UNCHANGED <<rg, rx, ry>>
         /\ UNCHANGED <<A, B, xx, yy, i>>
\* positions: i is 1-based here (the code's i in {0,1} is i-1); other(i) = 3 - i
Loop == /\ pc = "loop"
        /\ LET o == 3 - i
               q == aa[i] \div aa[o]
           IN IF aa[i] % aa[o] = 0
                THEN /\ pc' = "done" /\ rg' = aa[o]
                     /\ rx' = (IF swap THEN yy[o] ELSE xx[o]) * Sg(A)
                     /\ ry' = (IF swap THEN xx[o] ELSE yy[o]) * Sg(B)
                     /\ UNCHANGED <<aa, xx, yy, i>>
                ELSE /\ aa' = [aa EXCEPT ![i] = aa[i] % aa[o]]
                     /\ xx' = [xx EXCEPT ![i] = xx[i] - q * xx[o]]
                     /\ yy' = [yy EXCEPT ![i] = yy[i] - q * yy[o]]
                     /\ i' = o
                     /\ UNCHANGED <<pc, rg, rx, ry>>
        /\ UNCHANGED <<A, B, swap>>
ENext == Start \/ Loop
ESpec == EInit /\ [][ENext]_evars
\* loop invariant: both columns are integer combinations of the (swapped) absolute values
Big == IF swap THEN Abs(B) ELSE Abs(A)
Small == IF swap THEN Abs(A) ELSE Abs(B)
BezoutInv == pc = "loop" => \A k \in 1..2 : aa[k] = xx[k] * Big + yy[k] * Small /\ aa[k] > 0
PostCondition == pc = "done" => GcdViol(A, B, rg, rx, ry) = {}
Terminates == <>(pc = "done")
=============================================================================
