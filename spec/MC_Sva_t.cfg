CONSTANTS N = 5 WS = {1}
SPECIFICATION SSpec
INVARIANTS DimOK Orthogonal SearchNeverFails EmitsAllowed ReturnAllowed
CHECK_DEADLOCK FALSE
