CONSTANTS N = 4 WS = {1,2,3}
SPECIFICATION SSpec
INVARIANTS DimOK Orthogonal SearchNeverFails EmitsAllowed ReturnAllowed
CHECK_DEADLOCK FALSE
