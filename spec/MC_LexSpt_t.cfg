CONSTANTS N = 5 WS = {1}
SPECIFICATION LSpec
INVARIANTS CanonUnique MachineIsCanonical CanonOK
CHECK_DEADLOCK FALSE
