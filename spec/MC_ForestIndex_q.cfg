CONSTANTS N = 4
SPECIFICATION FSpec
INVARIANTS ImplRefinesAbstract BfsInvariant
CHECK_DEADLOCK FALSE
