CONSTANTS K = 60 Variant = "fixed"
SPECIFICATION ESpec
INVARIANTS BezoutInv PostCondition
CHECK_DEADLOCK FALSE
