------------------------------- MODULE FpArith -------------------------------
(***************************************************************************)
(* C18.  Prime-field arithmetic: fp<T>::ext_gcd, fp<T>::get_mult_inverse,  *)
(* primes<T>::is_prime and the sparse vector SpVecFP over F_p.             *)
(* Abstract meaning = integer arithmetic (TLC evaluates it exactly within  *)
(* 32 bits; the recorders keep operands small or log residues).            *)
(***************************************************************************)
EXTENDS Naturals, Integers, Sequences, FiniteSets, TLC, FiniteSetsExt, SequencesExt

Abs(v) == IF v < 0 THEN -v ELSE v
RECURSIVE Gcd(_, _)
Gcd(a, b) == IF b = 0 THEN a ELSE Gcd(b, a % b)            \* a, b >= 0
\* valid for p < 4 000 000 (trial division up to 2000; keeps t*t inside 32 bits)
IsPrime(p) == p >= 2 /\ \A t \in 2..(IF p - 1 < 2000 THEN p - 1 ELSE 2000) : t * t > p \/ p % t # 0
Mod(a, p) == ((a % p) + p) % p

\* ---- API-level clauses -----------------------------------------------------------------
GcdViol(a, b, g, x, y) ==
       (IF g < 0 THEN {"gcd-negative"} ELSE {})
  \cup (IF g # Gcd(Abs(a), Abs(b)) THEN {"not-the-gcd"} ELSE {})
  \cup (IF a * x + b * y # g THEN {"bezout"} ELSE {})
InvViol(a, p, threw, x) ==
  IF Gcd(Abs(a), p) = 1
    THEN (IF threw THEN {"threw-although-invertible"} ELSE IF Mod(a * Mod(x, p), p) # Mod(1, p) THEN {"not-an-inverse"} ELSE {})
    ELSE (IF threw THEN {} ELSE {"no-exception-for-non-invertible"})
PrimeViol(p, res) == IF res # IsPrime(p) THEN {"primality"} ELSE {}

\* ---- SpVecFP register machine -------------------------------------------------------------
\* a register is a function from a finite set of coordinates to 1..p-1 (the non-zero entries)
Zero == <<>>
Nz(f) == DOMAIN f
Val(f, i) == IF i \in DOMAIN f THEN f[i] ELSE 0
Norm(p, coords, val(_)) == LET nz == {i \in coords : Mod(val(i), p) # 0} IN [i \in nz |-> Mod(val(i), p)]
FPEffect(p, r, o) ==
  CASE o.op = "Unit"        -> [r |-> [r EXCEPT ![o.d] = [i \in {o.a} |-> 1]], res |-> -1]     \* v = index
    [] o.op = "Copy"        -> [r |-> [r EXCEPT ![o.d] = r[o.a]], res |-> -1]
    [] o.op = "Assign"      -> [r |-> [r EXCEPT ![o.d] = r[o.a]], res |-> -1]
    [] o.op = "Plus"        -> [r |-> [r EXCEPT ![o.d] = Norm(p, Nz(r[o.a]) \cup Nz(r[o.b]),
                                                 LAMBDA i : Val(r[o.a], i) + Val(r[o.b], i))], res |-> -1]
    [] o.op = "PlusAssign"  -> [r |-> [r EXCEPT ![o.d] = Norm(p, Nz(r[o.d]) \cup Nz(r[o.a]),
                                                 LAMBDA i : Val(r[o.d], i) + Val(r[o.a], i))], res |-> -1]
    [] o.op = "Scale"       -> [r |-> [r EXCEPT ![o.d] = Norm(p, Nz(r[o.a]), LAMBDA i : Val(r[o.a], i) * o.k)], res |-> -1]
    [] o.op = "ScaleAssign" -> [r |-> [r EXCEPT ![o.d] = Norm(p, Nz(r[o.d]), LAMBDA i : Val(r[o.d], i) * o.k)], res |-> -1]
    [] o.op = "Dot"         -> [r |-> r, res |-> Mod(FoldSet(LAMBDA i, acc : acc + Mod(Val(r[o.a], i) * Val(r[o.b], i), p), 0,
                                                          Nz(r[o.a]) \cap Nz(r[o.b])), p)]
    [] o.op = "Clear"       -> [r |-> [r EXCEPT ![o.d] = Zero], res |-> -1]
\* observed entries <<index, value>> of one register
EntriesOK(p, es) == /\ \A k \in 1..(Len(es) - 1) : es[k][1] < es[k + 1][1]
                    /\ \A k \in 1..Len(es) : es[k][2] \in 1..(p - 1)
AsVec(es) == [i \in {es[k][1] : k \in 1..Len(es)} |-> (CHOOSE k \in 1..Len(es) : es[k][1] = i) ]
VecOf(es) == [i \in {es[k][1] : k \in 1..Len(es)} |-> es[CHOOSE k \in 1..Len(es) : es[k][1] = i][2]]
=============================================================================
