------------------------------- MODULE FpArith -------------------------------
(***************************************************************************)
(* C18.  Prime-field arithmetic: fp<T>::ext_gcd, fp<T>::get_mult_inverse,  *)
(* primes<T>::is_prime and the sparse vector SpVecFP over F_p.             *)
(* Abstract meaning = integer arithmetic (TLC evaluates it exactly within  *)
(* 32 bits; the recorders keep operands small or log residues).            *)
(***************************************************************************)
EXTENDS Naturals, Integers, Sequences, FiniteSets, TLC, FiniteSetsExt, SequencesExt

Abs(v) == IF v < 0 THEN -v ELSE v
RECURSIVE Gcd(_, _)
Gcd(a, b) == IF b = 0 THEN a ELSE Gcd(b, a % b)            \* a, b >= 0
\* valid for p < 4 000 000 (trial division up to 2000; keeps t*t inside 32 bits)
IsPrime(p) == p >= 2 /\ \A t \in 2..(IF p - 1 < 2000 THEN p - 1 ELSE 2000) : t * t > p \/ p % t # 0
Mod(a, p) == ((a % p) + p) % p

\* ---- API-level clauses -----------------------------------------------------------------
GcdViol(a, b, g, x, y) ==
       (IF g < 0 THEN {"gcd-negative"} ELSE {})
  \cup (IF g # Gcd(Abs(a), Abs(b)) THEN {"not-the-gcd"} ELSE {})
  \cup (IF a * x + b * y # g THEN {"bezout"} ELSE {})
InvViol(a, p, threw, x) ==
  IF Gcd(Abs(a), p) = 1
    THEN (IF threw THEN {"threw-although-invertible"} ELSE IF Mod(a * Mod(x, p), p) # Mod(1, p) THEN {"not-an-inverse"} ELSE {})
    ELSE (IF threw THEN {} ELSE {"no-exception-for-non-invertible"})
PrimeViol(p, res) == IF res # IsPrime(p) THEN {"primality"} ELSE {}

\* ---- multiprecision operands, decided through residues -------------------------------------------------
\* row = <<prime, v1 mod prime, v2 mod prime, ...>>.  An integer polynomial identity that holds modulo each of the
\* 12 primes (product > 2^179) and whose value is bounded by 2^maxbits with maxbits + 2 < 170 holds over the integers.
ModAll(res, f(_)) == \A i \in 1..Len(res) : Mod(f(res[i]), res[i][1]) = 0
\* columns: 2 a, 3 b, 4 g, 5 x, 6 y, 7 a/g, 8 b/g ; bits: a b g x y a/g b/g
GcdBigViol(ev) ==
  LET bt == ev.bits
      bound == bt[1] + bt[4] + 2 < 170 /\ bt[2] + bt[5] + 2 < 170 /\ bt[6] + bt[4] + 2 < 170 /\ bt[7] + bt[5] + 2 < 170
  IN IF ~bound \/ Len(ev.res) # 12 THEN {"operands-too-large-for-the-residue-argument"}
     ELSE (IF ~ev.gpos THEN {"gcd-not-positive"} ELSE {})
     \cup (IF ~ModAll(ev.res, LAMBDA r : r[2] * r[5] + r[3] * r[6] - r[4]) THEN {"bezout"} ELSE {})
     \cup (IF ~ModAll(ev.res, LAMBDA r : r[8] * r[4] - r[3]) \/ ~ModAll(ev.res, LAMBDA r : r[7] * r[4] - r[2])
            THEN {"gcd-does-not-divide"} ELSE {})
     \cup (IF ~ModAll(ev.res, LAMBDA r : r[7] * r[5] + r[8] * r[6] - 1) THEN {"not-the-greatest-common-divisor"} ELSE {})
\* columns: 2 a, 3 p, 4 x, 5 k with a*x - 1 = k*p ; bits: a p x k
InvBigViol(ev) ==
  IF ev.threw THEN {}                 \* (invertibility of big operands is not re-decided: p is prime and 0 < a < p in the driver)
  ELSE IF ev.bits[1] + ev.bits[3] + 2 >= 170 \/ ev.bits[4] + ev.bits[2] + 2 >= 170 THEN {"operands-too-large-for-the-residue-argument"}
  ELSE IF ~ModAll(ev.res, LAMBDA r : r[2] * r[4] - 1 - r[5] * r[3]) THEN {"not-an-inverse"} ELSE {}

\* ---- SpVecFP register machine -------------------------------------------------------------
\* a register is a function from a finite set of coordinates to 1..p-1 (the non-zero entries)
Zero == <<>>
Nz(f) == DOMAIN f
Val(f, i) == IF i \in DOMAIN f THEN f[i] ELSE 0
Norm(p, coords, val(_)) == LET nz == {i \in coords : Mod(val(i), p) # 0} IN [i \in nz |-> Mod(val(i), p)]
FPEffect(p, r, o) ==
  CASE o.op = "Unit"        -> [r |-> [r EXCEPT ![o.d] = [i \in {o.a} |-> 1]], res |-> -1]     \* v = index
    [] o.op = "Copy"        -> [r |-> [r EXCEPT ![o.d] = r[o.a]], res |-> -1]
    [] o.op = "Assign"      -> [r |-> [r EXCEPT ![o.d] = r[o.a]], res |-> -1]
    [] o.op = "Plus"        -> [r |-> [r EXCEPT ![o.d] = Norm(p, Nz(r[o.a]) \cup Nz(r[o.b]),
                                                 LAMBDA i : Val(r[o.a], i) + Val(r[o.b], i))], res |-> -1]
    [] o.op = "PlusAssign"  -> [r |-> [r EXCEPT ![o.d] = Norm(p, Nz(r[o.d]) \cup Nz(r[o.a]),
                                                 LAMBDA i : Val(r[o.d], i) + Val(r[o.a], i))], res |-> -1]
    [] o.op = "Scale"       -> [r |-> [r EXCEPT ![o.d] = Norm(p, Nz(r[o.a]), LAMBDA i : Val(r[o.a], i) * o.k)], res |-> -1]
    [] o.op = "ScaleAssign" -> [r |-> [r EXCEPT ![o.d] = Norm(p, Nz(r[o.d]), LAMBDA i : Val(r[o.d], i) * o.k)], res |-> -1]
    [] o.op = "Dot"         -> [r |-> r, res |-> Mod(FoldSet(LAMBDA i, acc : acc + Mod(Val(r[o.a], i) * Val(r[o.b], i), p), 0,
                                                          Nz(r[o.a]) \cap Nz(r[o.b])), p)]
    [] o.op = "Clear"       -> [r |-> [r EXCEPT ![o.d] = Zero], res |-> -1]
    \* move assignment: the destination takes the value; the recorder clears a moved-from source (its content is unspecified);
    \* a = std::move(a) keeps the value
    [] o.op = "MoveAssign"  -> [r |-> IF o.a = o.d THEN r ELSE [r EXCEPT ![o.d] = r[o.a], ![o.a] = Zero], res |-> -1]
\* observed entries <<index, value>> of one register
EntriesOK(p, es) == /\ \A k \in 1..(Len(es) - 1) : es[k][1] < es[k + 1][1]
                    /\ \A k \in 1..Len(es) : es[k][2] \in 1..(p - 1)
AsVec(es) == [i \in {es[k][1] : k \in 1..Len(es)} |-> (CHOOSE k \in 1..Len(es) : es[k][1] = i) ]
VecOf(es) == [i \in {es[k][1] : k \in 1..Len(es)} |-> es[CHOOSE k \in 1..Len(es) : es[k][1] = i][2]]
=============================================================================
