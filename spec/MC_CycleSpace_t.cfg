CONSTANTS N = 5  WS = {1,2}  CheckAllBases = FALSE
INIT Init
NEXT Next
INVARIANTS T1 T2 T4
CHECK_DEADLOCK FALSE
