------------------------------ MODULE CollOps ------------------------------
(* Pure part of Collections.tla, parameterised by the graph: Horton candidates on the canonical trees, the linking *)
(* rule of ISOCyclesBuilder, the isometric output.  Used by Collections.tla (model checking) and by the trace      *)
(* specification of the component recorder (binding of the model to the code, diagnostic).                          *)
EXTENDS LexOps

TreesOf(g) == [x \in V(g) |-> CanonTree(g, x)]
FirstOf(tr, x, v) == tr[x].first[v + 1]
PredOf(tr, x, v) == tr[x].pred[v + 1]
Reach(tr, x, v) == tr[x].dist[v + 1] # -1
IsCand(g, tr, x, e) == /\ Reach(tr, x, Src(g, e)) /\ Reach(tr, x, Dst(g, e))
                    /\ PredOf(tr, x, Src(g, e)) # e /\ PredOf(tr, x, Dst(g, e)) # e
                    /\ FirstOf(tr, x, Src(g, e)) # FirstOf(tr, x, Dst(g, e))
\* candidates in construction order: trees in vertex order, edges in edge order
HortonSeq(g, tr) == LET pairs == {<<x, e>> \in V(g) \X EIdx(g) : IsCand(g, tr, x, e)}
                 IN SetToSortSeq(pairs, LAMBDA a, b : a[1] < b[1] \/ (a[1] = b[1] /\ a[2] <= b[2]))
CycleOf(g, tr, c) == TreePath(g, tr[c[1]], Src(g, c[2])) \cup TreePath(g, tr[c[1]], Dst(g, c[2])) \cup {c[2]}

\* the linking rule of ISOCyclesBuilder for candidate c = <<x, e>>: the candidate it is linked to, or "bad"
LinkOf(g, tr, c) ==
  LET x == c[1]
      e == c[2]
      u == Src(g, e)
      v == Dst(g, e)
  IN IF x = u THEN [bad |-> FALSE, to |-> <<v, e>>]
     ELSE LET xp == FirstOf(tr, x, u) IN
          IF x = FirstOf(tr, xp, v) THEN [bad |-> FALSE, to |-> <<xp, e>>]
          ELSE IF u = FirstOf(tr, v, xp) THEN [bad |-> FALSE, to |-> <<v, PredOf(tr, x, xp)>>]
          ELSE [bad |-> TRUE, to |-> c]
IsoOut(g, tr) ==
  LET H == HortonSeq(g, tr)
      Hs == {H[i] : i \in 1..Len(H)}
      tgt(c) == LET lk == LinkOf(g, tr, c) IN IF lk.bad THEN c ELSE IF lk.to \in Hs THEN lk.to ELSE H[1]
      adj == {<<c, tgt(c)>> : c \in Hs}
      \* connected components by label propagation over the candidate indices
      lab == FoldSet(LAMBDA p, f : LET a == f[p[1]] b == f[p[2]] IN
                        IF a = b THEN f ELSE TLCEval([c \in Hs |-> IF f[c] = b THEN a ELSE f[c]]),
                     TLCEval([c \in Hs |-> c]), adj)
      badclass == {lab[c] : c \in {d \in Hs : LinkOf(g, tr, d).bad}}
      good == {c \in Hs : lab[c] \notin badclass}
  IN {c \in good : \A d \in good : lab[d] = lab[c] =>
          (CHOOSE i \in 1..Len(H) : H[i] = c) <= (CHOOSE i \in 1..Len(H) : H[i] = d)}
LinkTargetsExistG(g) ==
  LET tr == TreesOf(g)
      H == HortonSeq(g, tr)
      Hs == {H[i] : i \in 1..Len(H)}
  IN \A c \in Hs : LinkOf(g, tr, c).bad \/ LinkOf(g, tr, c).to \in Hs

=============================================================================
