------------------------------- MODULE History -------------------------------
(***************************************************************************)
(* C08.  The reported optimum is a function of the weighted graph alone.   *)
(* The unit of observation is a HISTORY of calls on different              *)
(* presentations of abstract graphs that the driver derives from each      *)
(* other.  Every abstract graph has an id; Def(id, rel, args) declares how *)
(* it is related to earlier ones:                                          *)
(*    base            no relation (anchor; for small graphs the optimum is *)
(*                    recomputed by the TLA+ oracle from the edge list)    *)
(*    same(a)         same weighted graph as a up to vertex renumbering,   *)
(*                    edge order, isolated vertices, pendant trees, bridges*)
(*    union(a, b)     disjoint union                 opt = opt a + opt b   *)
(*    subdiv(a)       one edge split into two of the same total weight     *)
(*    scale(a, f)     all weights multiplied by the power of two f         *)
(* The state maps each abstract id to the optimum (and basis size) it is   *)
(* committed to; Ret(id, value) is enabled only if it agrees.  Calls come  *)
(* from every exact variant and backend.                                   *)
(***************************************************************************)
EXTENDS CycleSpace
VARIABLES val,     \* abstract id -> committed optimum (scaled integer)
          dim,     \* abstract id -> committed number of basis cycles
          defs     \* abstract id -> its definition
hvars == <<val, dim, defs>>
HInit == val = <<>> /\ dim = <<>> /\ defs = <<>>

Known(a) == a \in DOMAIN val
\* the value a definition forces, or -1 if none (base without edge list)
Forced(d) ==
  CASE d.rel = "base"   -> IF d.small THEN Opt([n |-> d.n, edges |-> d.edges]).w ELSE -1
    [] d.rel = "same"   -> val[d.args[1]]
    [] d.rel = "union"  -> val[d.args[1]] + val[d.args[2]]
    [] d.rel = "subdiv" -> val[d.args[1]]
    [] d.rel = "scale"  -> val[d.args[1]] * d.f
ForcedDim(d) ==
  CASE d.rel = "base"   -> IF d.small THEN Dim([n |-> d.n, edges |-> d.edges]) ELSE -1
    [] d.rel = "same"   -> dim[d.args[1]]
    [] d.rel = "union"  -> dim[d.args[1]] + dim[d.args[2]]
    [] d.rel = "subdiv" -> dim[d.args[1]]
    [] d.rel = "scale"  -> dim[d.args[1]]
DefViol(d) ==
       (IF d.id \in DOMAIN defs THEN {"redefinition"} ELSE {})
  \cup (IF \E k \in 1..Len(d.args) : ~Known(d.args[k]) THEN {"relation-to-unknown-graph"} ELSE {})
\* for small graphs the transformed graph itself is re-evaluated by the oracle: validates the driver's transformation
DriverViol(d) ==
  IF d.small /\ d.rel # "base" /\ \A k \in 1..Len(d.args) : Known(d.args[k])
    THEN (IF Opt([n |-> d.n, edges |-> d.edges]).w # Forced(d) THEN {"driver-transformation-changes-optimum"} ELSE {})
    ELSE {}
Def(d) == /\ DefViol(d) = {}
          /\ defs' = defs @@ (d.id :> d)
          /\ IF Forced(d) # -1 THEN val' = val @@ (d.id :> Forced(d)) /\ dim' = dim @@ (d.id :> ForcedDim(d))
                               ELSE UNCHANGED <<val, dim>>
RetViol(id, r) ==
  IF id \notin DOMAIN defs THEN {"call-on-undeclared-graph"}
  ELSE IF ~Known(id) THEN (IF r.frac # 0 THEN {"value-not-exact"} ELSE {})
  ELSE (IF r.ret # val[id] \/ r.frac # 0 THEN {"optimum-differs"} ELSE {})
       \cup (IF r.ncyc # dim[id] THEN {"basis-size-differs"} ELSE {})
Ret(id, r) == /\ RetViol(id, r) = {}
              /\ IF Known(id) THEN UNCHANGED <<val, dim>>
                 ELSE val' = val @@ (id :> r.ret) /\ dim' = dim @@ (id :> r.ncyc)
              /\ UNCHANGED defs
=============================================================================
