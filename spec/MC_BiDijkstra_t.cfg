CONSTANTS N = 4 WS = {1,3} Limits = {6} LimitFactor = 1
SPECIFICATION BSpec
INVARIANTS Correct BestIsAPath
CHECK_DEADLOCK FALSE
