-------------------------------- MODULE Fvs --------------------------------
(***************************************************************************)
(* C13.  Abstract specification of greedy_fvs and an implementation-shaped *)
(* model of detail/fvs.hpp (degree bookkeeping, clean-up stack, pairing     *)
(* heap whose order among equal priorities is left open).                   *)
(***************************************************************************)
EXTENDS Components, GraphGen

\* ---------------- implementation-shaped model ----------------------------------------
CONSTANTS N
VARIABLES GF, exists, degree, stack, heap, outv, phase
gvars == <<GF, exists, degree, stack, heap, outv, phase>>

Nbrs(u) == [k \in 1..Len(SelectSeq([i \in 1..M(GF) |-> i], LAMBDA i : Inc(GF, i, u))) |->
              Other(GF, SelectSeq([i \in 1..M(GF) |-> i], LAMBDA i : Inc(GF, i, u))[k], u)]
DegG(u) == Len(Nbrs(u))

GInit == /\ GF \in AllSimpleUpTo(N, {1})
         /\ exists = [v \in V(GF) |-> TRUE]
         /\ degree = [v \in V(GF) |-> DegG(v)]
         \* push_front in vertex order => the last low-degree vertex is on top
         /\ stack = LET low == SelectSeq([i \in 1..GF.n |-> i - 1], LAMBDA v : DegG(v) <= 1)
                    IN [k \in 1..Len(low) |-> low[Len(low) + 1 - k]]
         /\ heap = {} /\ outv = <<>> /\ phase = "cleanup0"

\* pop the clean-up stack: remove u, decrement existing neighbours, push those that drop to <= 1
Cleanup ==
  /\ phase \in {"cleanup0", "cleanup"} /\ stack # <<>>
  /\ LET u == Head(stack)
         st == FoldSeq(LAMBDA w, s : IF ~s.ex[w] THEN s
                         ELSE LET d == s.deg[w] - 1 IN
                              [ex |-> s.ex, deg |-> [s.deg EXCEPT ![w] = d],
                               stk |-> IF d <= 1 THEN <<w>> \o s.stk ELSE s.stk],
                       [ex |-> [exists EXCEPT ![u] = FALSE], deg |-> degree, stk |-> Tail(stack)], Nbrs(u))
     IN exists' = st.ex /\ degree' = st.deg /\ stack' = st.stk
  /\ UNCHANGED <<heap, outv, phase>>

FillHeap == /\ phase = "cleanup0" /\ stack = <<>>
            /\ heap' = {v \in V(GF) : exists[v]} /\ phase' = "main"
            /\ UNCHANGED <<exists, degree, stack, outv>>

\* pop ANY vertex of maximum degree (priority 1/degree; ties in pairing-heap order are unspecified).
\* Priorities are only refreshed for vertices whose degree stays >= 2, so a removed vertex still in
\* the heap keeps a stale priority; the model lets such dead entries be popped at any time.
HeapPop(v) ==
  /\ phase = "main" /\ stack = <<>> /\ v \in heap
  /\ (~exists[v] \/ \A u \in heap : exists[u] => degree[u] <= degree[v])
  /\ heap' = heap \ {v}
  /\ IF ~exists[v] THEN UNCHANGED <<exists, degree, stack, outv, phase>>
     ELSE LET st == FoldSeq(LAMBDA w, s : IF ~s.ex[w] THEN s
                              ELSE LET d == s.deg[w] - 1 IN
                                   [ex |-> s.ex, deg |-> [s.deg EXCEPT ![w] = d],
                                    stk |-> IF d <= 1 THEN <<w>> \o s.stk ELSE s.stk],
                            [ex |-> [exists EXCEPT ![v] = FALSE], deg |-> degree, stk |-> <<>>], Nbrs(v))
          IN /\ exists' = st.ex /\ degree' = st.deg /\ stack' = st.stk
             /\ outv' = Append(outv, v)
             /\ phase' = IF st.stk = <<>> THEN "main" ELSE "cleanup"
EndCleanup == /\ phase = "cleanup" /\ stack = <<>> /\ phase' = "main"
              /\ UNCHANGED <<exists, degree, stack, heap, outv>>
Done == /\ phase = "main" /\ heap = {} /\ stack = <<>> /\ phase' = "done"
        /\ UNCHANGED <<exists, degree, stack, heap, outv>>

GNext == (Cleanup \/ FillHeap \/ (\E v \in V(GF) : HeapPop(v)) \/ EndCleanup \/ Done) /\ UNCHANGED GF
GSpec == GInit /\ [][GNext]_gvars

\* bookkeeping invariant: for an existing vertex, degree = number of existing neighbours + the number of
\* removed neighbours still waiting on the clean-up stack to be processed
Pending == {stack[k] : k \in 1..Len(stack)}
DegreeInv == \A v \in V(GF) : exists[v] =>
               degree[v] = Cardinality({k \in 1..Len(Nbrs(v)) : exists[Nbrs(v)[k]]})
FvsRefines == phase = "done" => FvsViol(GF, outv) = {}
NoCycleLeftWhenDone == phase = "done" => \A v \in V(GF) : ~exists[v]
=============================================================================
