---------------------------- MODULE ReduceAlgebra ----------------------------
(***************************************************************************)
(* C03, proof layer (TLAPS).  The join function `cycle_min` that every     *)
(* tbb::parallel_reduce of the library uses, on the abstraction            *)
(* [found, w] of a partial result, is a left-biased minimum with "not      *)
(* found" as neutral element.  The lemmas proved here for ARBITRARY        *)
(* weights (no bound on the number of items or on the weights) are what    *)
(* makes the result of a reduction independent of the bracketing chosen by *)
(* the scheduler: neutrality of the identity, associativity, and that the  *)
(* join of two partial results is never heavier than either.  ParRegion.tla *)
(* model-checks the full scheduler semantics for small N; these lemmas are *)
(* the unbounded algebraic core.                                           *)
(***************************************************************************)
EXTENDS Integers, TLAPS
Val == [found : BOOLEAN, w : Int]
NotFound == [found |-> FALSE, w |-> 0]
Join(c1, c2) == IF ~c1.found \/ ~c2.found THEN (IF c1.found THEN c1 ELSE c2)
                ELSE IF ~(c2.w < c1.w) THEN c1 ELSE c2
\* two values are equivalent if both are "not found" or both found with the same weight
Eq(a, b) == a.found = b.found /\ (a.found => a.w = b.w)

THEOREM JoinType == \A a, b \in Val : Join(a, b) \in Val
  BY DEF Join, Val

THEOREM IdentityNeutral == \A a \in Val : Eq(Join(NotFound, a), a) /\ Eq(Join(a, NotFound), a)
  BY DEF Join, NotFound, Eq, Val

THEOREM JoinAssociative == \A a, b, c \in Val : Eq(Join(Join(a, b), c), Join(a, Join(b, c)))
  BY DEF Join, Eq, Val

THEOREM JoinIsMinimum == \A a, b \in Val :
                            LET j == Join(a, b) IN
                            /\ j.found = (a.found \/ b.found)
                            /\ (a.found => j.found /\ j.w <= a.w)
                            /\ (b.found => j.found /\ j.w <= b.w)
                            /\ (j.found => (a.found /\ j.w = a.w) \/ (b.found /\ j.w = b.w))
  BY DEF Join, Val

\* ties: the left operand wins, so with equal weights the result does not depend on the bracketing either
THEOREM JoinLeftBiased == \A a, b \in Val : (a.found /\ b.found /\ a.w = b.w) => Join(a, b) = a
  BY DEF Join, Val

\* The MPI reduction operator SerializableMinOddCycleMinOp (sptrees.hpp) is the right-biased variant; Boost.MPI may
\* apply it in any bracketing and - because the library declares it commutative - with swapped operands, so it must be
\* associative and commutative up to Eq.
JoinR(c1, c2) == IF ~c1.found \/ ~c2.found THEN (IF c1.found THEN c1 ELSE c2)
                 ELSE IF c1.w < c2.w THEN c1 ELSE c2
THEOREM JoinRAssociative == \A a, b, c \in Val : Eq(JoinR(JoinR(a, b), c), JoinR(a, JoinR(b, c)))
  BY DEF JoinR, Eq, Val
THEOREM JoinRCommutative == \A a, b \in Val : Eq(JoinR(a, b), JoinR(b, a))
  <1> SUFFICES ASSUME NEW a \in Val, NEW b \in Val PROVE Eq(JoinR(a, b), JoinR(b, a))
      OBVIOUS
  <1>1. CASE ~a.found \/ ~b.found
      BY <1>1 DEF JoinR, Eq, Val
  <1>2. CASE a.found /\ b.found /\ a.w < b.w
      BY <1>2 DEF JoinR, Eq, Val
  <1>3. CASE a.found /\ b.found /\ b.w < a.w
      BY <1>3 DEF JoinR, Eq, Val
  <1>4. CASE a.found /\ b.found /\ a.w = b.w
      BY <1>4 DEF JoinR, Eq, Val
  <1> QED BY <1>1, <1>2, <1>3, <1>4 DEF Val
THEOREM JoinRNeutral == \A a \in Val : Eq(JoinR(NotFound, a), a) /\ Eq(JoinR(a, NotFound), a)
  BY DEF JoinR, NotFound, Eq, Val
=============================================================================
