CONSTANTS NV = 2 NL = 2 WS = {1000, 2500}
SPECIFICATION DSpec
INVARIANTS EdgesInOrder EndpointsDeclared MachineMatchesRun
CHECK_DEADLOCK FALSE
