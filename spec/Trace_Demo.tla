----------------------------- MODULE Trace_Demo -----------------------------
(* Trace specification for C11: every observed process run is a run Demo.tla allows. *)
EXTENDS Demo, Json, IOUtils
Tr == ndJsonDeserialize(IOEnv.TRACE)
VARIABLES l
Report(v) == IF v = {} THEN TRUE ELSE PrintT(<<"REJECT", l, l, v>>)
TInit == l = 1
TNext == l <= Len(Tr) /\ l' = l + 1 /\ Report(DemoViol(Tr[l]))
TSpec == TInit /\ [][TNext]_l
Accepted == TLCGet("stats").diameter - 1 = Len(Tr)
=============================================================================
