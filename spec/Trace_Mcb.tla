----------------------------- MODULE Trace_Mcb -----------------------------
(***************************************************************************)
(* Trace specification: a recorded ndjson trace of exact-MCB calls is a    *)
(* behaviour of Mcb.  One line = one event = one step.  A call whose event *)
(* is not enabled in Mcb is REJECTed (printed with the violated clauses),  *)
(* the rest of that call is skipped and validation resumes at the next     *)
(* Call, so that one run reports every bad call of the trace.              *)
(***************************************************************************)
EXTENDS Mcb, Json, IOUtils
Tr == ndJsonDeserialize(IOEnv.TRACE)
VARIABLES l,       \* next line of the trace
          cl,      \* line of the Call event of the current call
          skip,    \* TRUE while the rest of a rejected call is skipped
          deg,     \* TRUE if the call was rejected at an Emit (its Return is still checked for the weight clauses)
          wsum     \* sum of the weights of everything emitted in the current call, -1 = undefined (foreign edge)
tvars == <<l, cl, skip, deg, wsum, pc, G, out, basis>>

Report(v) == IF v = {} THEN TRUE ELSE PrintT(<<"REJECT", cl, l, v>>)
GraphOf(ev) == [n |-> ev.n, edges |-> ev.edges]

TInit == MInit /\ l = 1 /\ cl = 0 /\ skip = FALSE /\ deg = FALSE /\ wsum = 0

TCall(ev) ==
  /\ ev.e = "Call"
  /\ cl' = l /\ deg' = FALSE /\ wsum' = 0
  /\ IF InDomain(GraphOf(ev))
       THEN pc' = "run" /\ G' = GraphOf(ev) /\ out' = <<>> /\ basis' = <<>> /\ skip' = FALSE
       ELSE PrintT(<<"REJECT", l, l, {"bad-input"}>>) /\ skip' = TRUE /\ UNCHANGED mvars

TEmit(ev) ==
  /\ ev.e = "Emit"
  /\ UNCHANGED cl
  /\ wsum' = (IF skip /\ ~deg THEN wsum ELSE AddW(wsum, ev.cyc))
  /\ IF skip THEN UNCHANGED <<skip, deg, pc, G, out, basis>>
     ELSE LET v == EmitViol(ev.cyc) IN
          IF v = {} THEN Emit(ev.cyc) /\ UNCHANGED <<skip, deg>>
          ELSE Report(v) /\ skip' = TRUE /\ deg' = TRUE /\ UNCHANGED mvars

TReturn(ev) ==
  /\ ev.e = "Return"
  /\ UNCHANGED <<cl, wsum>> /\ deg' = FALSE
  /\ IF skip THEN (IF deg THEN Report(DegradedReturnViol(ev, wsum)) ELSE TRUE) /\ skip' = FALSE /\ pc' = "idle" /\ UNCHANGED <<G, out, basis>>
     ELSE LET v == ReturnViol(ev) IN
          /\ Report(v)
          /\ pc' = "idle" /\ UNCHANGED <<G, out, basis, skip>>

TCrash(ev) ==
  /\ ev.e = "Crash"
  /\ UNCHANGED <<cl, wsum>> /\ deg' = FALSE
  /\ (skip \/ Report({"crash"}))
  /\ skip' = FALSE /\ pc' = "idle" /\ UNCHANGED <<G, out, basis>>

\* the arena could not realise the requested address order: a machinery problem, reported as such by the driver
TLayoutError(ev) == ev.e = "LayoutError" /\ PrintT(<<"LAYOUTERROR", l>>) /\ UNCHANGED <<cl, skip, deg, wsum, pc, G, out, basis>>

TNext == /\ l <= Len(Tr)
         /\ l' = l + 1
         /\ LET ev == Tr[l] IN TCall(ev) \/ TEmit(ev) \/ TReturn(ev) \/ TCrash(ev) \/ TLayoutError(ev)
TSpec == TInit /\ [][TNext]_tvars

\* every event was consumed (diameter counts the initial state)
Accepted == TLCGet("stats").diameter - 1 = Len(Tr)
Inv == TypeOK /\ (~skip => OutIsPartialBasis)
=============================================================================
