CONSTANTS N = 5
SPECIFICATION FSpec
INVARIANTS ImplRefinesAbstract BfsInvariant
CHECK_DEADLOCK FALSE
