------------------------------ MODULE Spanner ------------------------------
(***************************************************************************)
(* C15 (and the design half of C05/C06).                                   *)
(* Abstract: SpannerViol(g, k, kept, dropped) - the clauses of the         *)
(* property for an observed spanner.                                        *)
(* Implementation-shaped: the greedy construction of                       *)
(* detail/approx_spanner.hpp: edges are scanned in ANY order consistent    *)
(* with non-decreasing weight (std::sort is unstable), an edge is kept iff *)
(* its endpoints are not within 2k-1 hops in the spanner built so far.     *)
(***************************************************************************)
EXTENDS Components, GraphGen

\* ---------------- implementation-shaped model ----------------------------------------
CONSTANTS N, WS, KS
VARIABLES G, k, pending, keptS, droppedS
svars == <<G, k, pending, keptS, droppedS>>
SInit == /\ G \in AllSimpleUpTo(N, WS) /\ k \in KS
         /\ pending = EIdx(G) /\ keptS = {} /\ droppedS = {}
\* scan any pending edge of minimum weight (ties in any order)
Scan(e) == /\ e \in pending /\ \A f \in pending : W(G, e) <= W(G, f)
           /\ pending' = pending \ {e}
           /\ IF HopDist(G, keptS, Src(G, e))[Dst(G, e)] <= 2 * k - 1
                THEN droppedS' = droppedS \cup {e} /\ keptS' = keptS
                ELSE keptS' = keptS \cup {e} /\ droppedS' = droppedS
           /\ UNCHANGED <<G, k>>
SNext == \E e \in EIdx(G) : Scan(e)
SSpec == SInit /\ [][SNext]_svars
AsKept == LET s == SetToSeq(keptS) IN [j \in 1..Len(s) |-> <<s[j], Src(G, s[j]), Dst(G, s[j]), W(G, s[j])>>]
SpannerRefines == pending = {} => SpannerViol(G, k, AsKept, SetToSeq(droppedS)) = {}
\* invariant during construction: girth bound and stretch for what has been decided so far
GirthInv == Girth(G, keptS) > 2 * k
StretchInv == \A e \in droppedS : HopDist(G, {f \in keptS : W(G, f) <= W(G, e)}, Src(G, e))[Dst(G, e)] <= 2 * k - 1
\* design half of C05/C06: with ANY minimum cycle basis of the spanner and, for every dropped edge, the
\* edge plus ANY shortest spanner path between its ends, the result is a basis of G of weight <= (2k-1) Opt(G)
SpannerGraph == [n |-> G.n, edges |-> [j \in 1..Len(SetToSeq(keptS)) |-> G.edges[SetToSeq(keptS)[j]]]]
ApproxBound ==
  pending = {} =>
    LET sp == SpannerGraph
        optS == OptBrute(sp).w
        d == Dist(sp)
        extra == FoldSet(LAMBDA e, acc : acc + W(G, e) + d[<<Src(G, e), Dst(G, e)>>], 0, droppedS)
        optG == OptBrute(G)
    IN /\ Dim(sp) + Cardinality(droppedS) = Dim(G)
       /\ optS + extra <= (2 * k - 1) * optG.w
       /\ (k = 1 => optS + extra = optG.w)
=============================================================================
