----------------------------- MODULE Trace_Build -----------------------------
(* Trace specification for C19: Compile / Link / AllPairs events produced by real compiler, nm and linker runs. *)
EXTENDS Build, Json, IOUtils
Tr == ndJsonDeserialize(IOEnv.TRACE)
VARIABLES l
Report(v) == IF v = {} THEN TRUE ELSE PrintT(<<"REJECT", l, l, v>>)
TInit == BInit /\ l = 1
TCompile(ev) == ev.e = "Compile" /\ Compile(ev) /\ Report(CompileViol(ev))
TLink(ev) == ev.e = "Link" /\ UNCHANGED tus /\ Report(LinkViol(ev))
TPair(ev) == ev.e = "Pair" /\ UNCHANGED tus /\ Report(PairViol(ev))
TUse(ev) == ev.e = "Use" /\ UNCHANGED tus /\ Report(UseViol(ev))
TAll(ev) == ev.e = "AllPairs" /\ UNCHANGED tus /\ Report(AllPairsViol(ev.cfg))
TNext == l <= Len(Tr) /\ l' = l + 1 /\ LET ev == Tr[l] IN TCompile(ev) \/ TLink(ev) \/ TAll(ev) \/ TPair(ev) \/ TUse(ev)
TSpec == TInit /\ [][TNext]_<<l, tus>>
Accepted == TLCGet("stats").diameter - 1 = Len(Tr)
=============================================================================
