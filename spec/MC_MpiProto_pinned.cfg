CONSTANTS P = 3 CMAX = 3 Gate = "rank0"
SPECIFICATION Spec
INVARIANTS NoMismatch NeverStuck
PROPERTY AllReturn
CHECK_DEADLOCK FALSE
