CONSTANTS PMAX = 6 TMAX = 9
INIT Init
NEXT Next
INVARIANTS Cover Disjoint
CHECK_DEADLOCK FALSE
