CONSTANTS N = 4 WS = {1,2}
SPECIFICATION LSpec
INVARIANTS CanonUnique MachineIsCanonical CanonOK
CHECK_DEADLOCK FALSE
