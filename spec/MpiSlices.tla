------------------------------ MODULE MpiSlices ------------------------------
(* C04: the ceil-stride slicing used by every MPI variant (candidates, vertices, signed edges):           *)
(*   stride = ceil(total / P), rank r takes indices i with r*stride <= i < (r+1)*stride, i < total.          *)
(* Checked for every P and total in the bounds: the slices partition 0..total-1 (incl. P > total, total = 0). *)
EXTENDS Naturals, Integers, FiniteSets, TLC
CONSTANTS PMAX, TMAX
VARIABLES P, total
Init == P \in 1..PMAX /\ total \in 0..TMAX
Next == UNCHANGED <<P, total>>
Stride == (total + P - 1) \div P
Slice(r) == {i \in 0..(total - 1) : r * Stride <= i /\ i < (r + 1) * Stride}
Cover == UNION {Slice(r) : r \in 0..(P-1)} = 0..(total - 1)
Disjoint == \A r, s \in 0..(P-1) : r # s => Slice(r) \cap Slice(s) = {}
\* the "floor" variant a careless edit would produce loses the tail: kept as a named deviation for the self-test
FloorStride == total \div P
FloorCover == UNION {{i \in 0..(total - 1) : r * FloorStride <= i /\ i < (r + 1) * FloorStride} : r \in 0..(P-1)} = 0..(total - 1)
=============================================================================
