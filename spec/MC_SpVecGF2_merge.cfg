CONSTANTS R = 1 D = 5
INIT MInit2
NEXT MNext2
INVARIANTS MergeCorrect DotCorrect MergeInv
CHECK_DEADLOCK FALSE
