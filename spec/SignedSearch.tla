---------------------------- MODULE SignedSearch ----------------------------
(***************************************************************************)
(* C01/C02 (and the search halves of C03/C04), implementation-shaped:      *)
(* the per-phase search of the signed-graph variant                        *)
(* (detail/signed_dijkstra.hpp, parmcb_sva_signed.hpp).                    *)
(*                                                                         *)
(* Signed graph of (G, S): nodes <<v, sign>>; an edge e = uv of G joins     *)
(* <<u,s>> with <<v,s>> if e \notin S and <<u,s>> with <<v,~s>> if e \in S.    *)
(* A walk <<v,+>> ~> <<v,->> is a closed walk of G through v using an odd    *)
(* number of S-edges.                                                       *)
(*                                                                         *)
(* Theorems checked by TLC for every graph in the bound and EVERY S:        *)
(*  AllVertices  min over v of dist(<<v,+>>, <<v,->>) = MinOddWeight(G, S)  *)
(*               (the branch |S| >= n of the code), and at every vertex that *)
(*               attains the minimum NO shortest walk repeats an edge - so   *)
(*               the code's "duplicate edge => discard" rule can never       *)
(*               discard the optimum, whatever tie-breaking Dijkstra uses.   *)
(*  HiddenEdges  for EVERY order of the signed edges: the minimum over       *)
(*               positions i of  w(e_i) + dist in (G minus e_i, e_i+1, ...)  *)
(*               from <<u,+>> to <<v,+>> (e_i = uv) equals MinOddWeight -    *)
(*               the heuristic branch |S| < n, sequential, TBB and (with one *)
(*               common order) MPI.                                          *)
(***************************************************************************)
EXTENDS CycleSpace, GraphGen
CONSTANTS N, WS
VARIABLES G, S
Init == G \in AllSimple(N, WS) /\ S \in SUBSET EIdx(G)
Next == UNCHANGED <<G, S>>

SNodes == V(G) \X BOOLEAN
\* one-step signed distance restricted to the usable edges U
SD0(U) == TLCEval([p \in SNodes \X SNodes |->
            IF p[1] = p[2] THEN 0
            ELSE LET es == {e \in U : Ends(G, e) = {p[1][1], p[2][1]} /\ p[1][1] # p[2][1] /\
                                      ((e \in S) <=> (p[1][2] # p[2][2]))}
                 IN IF es = {} THEN Inf ELSE Min({W(G, e) : e \in es})])
RECURSIVE SFW(_, _)
SFW(d, todo) == IF todo = {} THEN d
                ELSE LET k == CHOOSE x \in todo : TRUE
                     IN SFW(TLCEval([p \in SNodes \X SNodes |-> MinI(d[p], d[<<p[1], k>>] + d[<<k, p[2]>>])]), todo \ {k})
SDist(U) == SFW(SD0(U), SNodes)

MinOdd == MinOddWeight(G, S)
AllVertices ==
  LET d == SDist(EIdx(G))
      best == Min({d[<<<<v, TRUE>>, <<v, FALSE>>>>] : v \in V(G)} \cup {Inf})
  IN best = MinOdd

\* every shortest <<v,+>> ~> <<v,->> walk at an optimal v is edge-simple: an edge e = xy can lie on such a walk twice
\* only if the walk decomposes as v ~> x -e- y ~> ... ~> (x or y) -e- ... ~> v; it suffices that no closed odd walk of
\* minimum weight through v uses a vertex other than v twice, i.e. that the optimum is attained by SIMPLE cycles only:
OptimumIsSimple ==
  LET odd == {C \in CycleSpaceOf(G) : Cardinality(C \cap S) % 2 = 1}
  IN \A C \in odd : Wt(G, C) = MinOdd => IsSimpleCycle(G, C)

Perms(T) == {f \in [1..Cardinality(T) -> T] : \A i, j \in 1..Cardinality(T) : i # j => f[i] # f[j]}
HiddenEdges ==
  \A ord \in Perms(S) :
     LET K == Cardinality(S)
         cand(i) == LET e == ord[i]
                        usable == EIdx(G) \ {ord[j] : j \in i..K}
                        d == SDist(usable)[<<<<Src(G, e), TRUE>>, <<Dst(G, e), TRUE>>>>]
                    IN IF d >= Inf THEN Inf ELSE d + W(G, e)
     IN Min({cand(i) : i \in 1..K} \cup {Inf}) = MinOdd
=============================================================================
