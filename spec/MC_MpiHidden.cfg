CONSTANTS K = 5 P = 3 SameOrder = TRUE
INIT Init
NEXT Next
INVARIANT Complete
CHECK_DEADLOCK FALSE
