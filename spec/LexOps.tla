------------------------------- MODULE LexOps -------------------------------
(* Pure part of the lexicographic shortest-path specification: the canonical (lexicographically smallest) path   *)
(* between two vertices and the canonical tree of a root, by brute force over simple paths.  Used by LexSpt.tla   *)
(* (the Dijkstra machine must produce exactly these trees) and by Collections.tla (candidate collections).         *)
EXTENDS Components, GraphGen

\* ---- canonical trees by brute force over simple paths ------------------------------------
\* a path is [vs |-> vertex sequence, es |-> edge sequence]
RECURSIVE PathsFrom(_, _)
PathsFrom(g, P) ==
  LET ext == {[vs |-> Append(p.vs, Other(g, e, p.vs[Len(p.vs)])), es |-> Append(p.es, e)] :
                 p \in P, e \in {x \in EIdx(g) : \E q \in P : TRUE} }
      good == {q \in ext : LET m == Len(q.vs) IN
                 /\ Inc(g, q.es[m - 1], q.vs[m - 1])
                 /\ \A i \in 1..(m - 1) : q.vs[i] # q.vs[m]}
  IN IF good \subseteq P THEN P ELSE PathsFrom(g, P \cup good)
SimplePaths(g, r) == PathsFrom(g, {[vs |-> <<r>>, es |-> <<>>]})
LabelOf(g, p) == [d |-> FoldSeq(LAMBDA e, a : a + W(g, e), 0, p.es), h |-> Len(p.es), vs |-> {p.vs[i] : i \in 1..Len(p.vs)}]
CanonPaths(g, r) ==
  LET all == SimplePaths(g, r)
  IN [v \in V(g) |-> LET to == {p \in all : p.vs[Len(p.vs)] = v}
                     IN {p \in to : \A q \in to : ~LET a == LabelOf(g, q) b == LabelOf(g, p) IN
                                                     (a.d < b.d \/ (a.d = b.d /\ a.h < b.h) \/
                                                      (a.d = b.d /\ a.h = b.h /\ a.vs # b.vs /\ Min((a.vs \ b.vs) \cup {1000}) < Min((b.vs \ a.vs) \cup {1000})))}]
CanonTree(g, r) ==
  LET cp == CanonPaths(g, r)
      one(v) == CHOOSE p \in cp[v] : TRUE
  IN [s |-> r,
      dist |-> [i \in 1..g.n |-> IF cp[i - 1] = {} THEN -1 ELSE LabelOf(g, one(i - 1)).d],
      pred |-> [i \in 1..g.n |-> IF cp[i - 1] = {} \/ i - 1 = r THEN 0 ELSE one(i - 1).es[Len(one(i - 1).es)]],
      first |-> [i \in 1..g.n |-> IF cp[i - 1] = {} THEN -1 ELSE IF i - 1 = r THEN r ELSE one(i - 1).vs[2]]]

=============================================================================
