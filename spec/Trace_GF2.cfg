CONSTANTS R = 3 D = 64
SPECIFICATION TSpec
POSTCONDITION Accepted
CHECK_DEADLOCK FALSE
