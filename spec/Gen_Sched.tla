------------------------------ MODULE Gen_Sched ------------------------------
(* Generation for C03: every schedule tree of a parallel_reduce region over n <= NR items and every       *)
(* (partition, execution order) of a parallel_for region over n <= NF items, serialised for the vtbb shim. *)
EXTENDS ParRegion, Json, IOUtils
CONSTANTS NR, NF
Perms(S) == {f \in [1..Cardinality(S) -> S] : \A i, j \in 1..Cardinality(S) : i # j => f[i] # f[j]}
\* a partition of 0..n into consecutive chunks = a set of cut points containing 0 and n
ForScheds(n) == UNION {{[n |-> n, bounds |-> SetToSortSeq(cuts \cup {0, n}, <), perm |-> p] :
                          p \in Perms(0..(Cardinality(cuts \cup {0, n}) - 2))} : cuts \in SUBSET (1..(n-1))}
ASSUME ndJsonSerialize(IOEnv.GEN_OUT_R, SetToSeq(UNION {{[n |-> n, t |-> t] : t \in Trees(0, n)} : n \in 2..NR}))
ASSUME ndJsonSerialize(IOEnv.GEN_OUT_F, SetToSeq(UNION {ForScheds(n) : n \in 1..NF}))
GInit == tree = [k |-> "leaf", lo |-> 0, hi |-> 1] /\ vals = <<>> /\ done = <<>>
GNext == UNCHANGED pvars
=============================================================================
