------------------------------ MODULE DimacsOps ------------------------------
(* Pure part of the DIMACS reader specification (see Dimacs.tla): the effect of one abstract line, the    *)
(* expected result of a whole abstract file, and the clauses an observed result can violate.               *)
EXTENDS Naturals, Integers, Sequences, FiniteSets, TLC
Omitted == -1000000

\* effect of one line on the reader state st = [n, edges, failed]
Step(st, ln) ==
  IF st.failed THEN st
  ELSE CASE ln.k = "c" -> st
         [] ln.k = "p" -> [st EXCEPT !.n = st.n + ln.n, !.declared = st.declared \cup (1..ln.n)]
         [] ln.k = "e" -> IF ln.s \notin st.declared \/ ln.t \notin st.declared
                            THEN [st EXCEPT !.failed = TRUE]
                            ELSE [st EXCEPT !.edges = Append(st.edges,
                                     <<ln.s - 1, ln.t - 1, IF ln.w = Omitted THEN 1000 ELSE ln.w>>)]
RECURSIVE Run(_, _, _)
Run(st, lines, i) == IF i > Len(lines) THEN st ELSE Run(Step(st, lines[i]), lines, i + 1)
Expected(f) == Run([n |-> 0, edges |-> <<>>, failed |-> FALSE, declared |-> {}], f.lines, 1)

\* observed = [threw, n, edges]
ReadViol(f, o) ==
  LET x == Expected(f) IN
  IF x.failed THEN (IF o.threw THEN {} ELSE {"no-error-for-undeclared-vertex"})
  ELSE IF o.threw THEN {"error-on-valid-file"}
  ELSE (IF o.n # x.n THEN {"vertex-count"} ELSE {})
       \cup (IF Len(o.edges) # Len(x.edges) THEN {"edge-count"}
             ELSE (IF \E i \in 1..Len(x.edges) : <<o.edges[i][1], o.edges[i][2]>> # <<x.edges[i][1], x.edges[i][2]>> THEN {"edge-endpoints-or-order"} ELSE {})
                  \cup (IF \E i \in 1..Len(x.edges) : o.edges[i][3] # x.edges[i][3] THEN {"edge-weight"} ELSE {}))

=============================================================================
