----------------------------- MODULE Concurrency -----------------------------
(***************************************************************************)
(* C20.  TBB's allowed parallelism is governed by the set of LIVE          *)
(* tbb::global_control objects: active = min of their values (hardware     *)
(* default when none is alive).                                            *)
(* Abstract contract of parmcb::set_global_tbb_concurrency(n): after the    *)
(* call returns, active = n until the next call.                            *)
(* Two implementation shapes, one action per constructor/destructor:        *)
(*   "held"  (after the fix): the function keeps the control object alive   *)
(*           in a function-local static holder, releasing the previous one  *)
(*   "local" (pinned commit): the control is a local variable destroyed     *)
(*           when the function returns - kept as a named deviation so that  *)
(*           MC_Concurrency_pinned.cfg shows TLC refuting it.               *)
(* Regions (parallel_for / parallel_reduce) observe `active` when they run. *)
(***************************************************************************)
EXTENDS Naturals, Integers, FiniteSets, Sequences, TLC, FiniteSetsExt
CONSTANTS HW, VALUES, MAXCALLS, Shape
VARIABLES live,      \* set of <<id, value>> of live global_control objects
          nextid,
          pc,        \* "idle" | "in-set"  (inside set_global_tbb_concurrency)
          arg,       \* argument of the call in progress
          want,      \* value the caller asked for most recently (0 = never)
          held,      \* id of the control held by the static holder (0 = none)
          calls,
          seen       \* active value observed by the last region (0 = none yet)
cvars == <<live, nextid, pc, arg, want, held, calls, seen>>
Active == IF live = {} THEN HW ELSE Min({c[2] : c \in live})
Init == live = {} /\ nextid = 1 /\ pc = "idle" /\ arg = 0 /\ want = 0 /\ held = 0 /\ calls = 0 /\ seen = 0
CallSet(n) == /\ pc = "idle" /\ calls < MAXCALLS
              /\ pc' = "construct" /\ arg' = n /\ calls' = calls + 1
              /\ UNCHANGED <<live, nextid, want, held, seen>>
\* held shape: release the previous control first
Release == /\ pc = "construct" /\ Shape = "held" /\ held # 0
           /\ live' = {c \in live : c[1] # held} /\ held' = 0
           /\ UNCHANGED <<nextid, pc, arg, want, calls, seen>>
Construct == /\ pc = "construct" /\ (Shape = "held" => held = 0)
             /\ live' = live \cup {<<nextid, arg>>} /\ nextid' = nextid + 1
             /\ held' = IF Shape = "held" THEN nextid ELSE held
             /\ pc' = IF Shape = "local" THEN "destruct" ELSE "return"
             /\ UNCHANGED <<arg, want, calls, seen>>
\* local shape: the local variable dies at the closing brace
DestructLocal == /\ pc = "destruct"
                 /\ live' = {c \in live : c[1] # nextid - 1}
                 /\ pc' = "return" /\ UNCHANGED <<nextid, arg, want, held, calls, seen>>
Return == /\ pc = "return" /\ pc' = "idle" /\ want' = arg
          /\ UNCHANGED <<live, nextid, arg, held, calls, seen>>
Region == /\ pc = "idle" /\ seen' = Active
          /\ UNCHANGED <<live, nextid, pc, arg, want, held, calls>>
Next == (\E n \in VALUES : CallSet(n)) \/ Release \/ Construct \/ DestructLocal \/ Return \/ Region
Spec == Init /\ [][Next]_cvars
\* the contract
KnobEffective == (pc = "idle" /\ want # 0) => Active = want
RegionsObserveKnob == (pc = "idle" /\ want # 0 /\ seen # 0) => TRUE
AtMostOneHeld == Shape = "held" => Cardinality(live) <= 1
=============================================================================
