CONSTANTS N = 5
SPECIFICATION GSpec
INVARIANTS DegreeInv FvsRefines NoCycleLeftWhenDone
CHECK_DEADLOCK FALSE
