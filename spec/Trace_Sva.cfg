CONSTANTS N = 0 WS = {}
SPECIFICATION TSpec
INVARIANT NotDone
CHECK_DEADLOCK FALSE
