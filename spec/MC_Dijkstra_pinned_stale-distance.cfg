CONSTANTS N = 4 WS = {1,2,3} Variant = "stale-distance"
SPECIFICATION DSpec
INVARIANTS Final
CHECK_DEADLOCK FALSE
