----------------------------- MODULE Trace_Conc -----------------------------
(* Trace specification for C20.  Events recorded from the real oneTBB (Set / Region with the active value  *)
(* read from tbb::global_control::active_value) and from the demos running on vtbb (DemoRun: option         *)
(* combination + the active value seen by every parallel region).                                            *)
EXTENDS Naturals, Integers, Sequences, FiniteSets, TLC, Json, IOUtils
Tr == ndJsonDeserialize(IOEnv.TRACE)
VARIABLES l, want
Report(v) == IF v = {} THEN TRUE ELSE PrintT(<<"REJECT", l, l, v>>)
TInit == l = 1 /\ want = 0
TReset(ev) == ev.e = "Reset" /\ want' = 0
TSet(ev) == /\ ev.e = "Set" /\ want' = ev.n
            /\ Report(IF ev.active_after # ev.n THEN {"knob-without-effect-after-return"} ELSE {})
TRegion(ev) == /\ ev.e = "Region" /\ UNCHANGED want
               /\ Report(IF want # 0 /\ ev.active # want THEN {"region-ran-with-other-parallelism"} ELSE {})
TDemo(ev) == /\ ev.e = "DemoRun" /\ UNCHANGED want
             /\ Report(     (IF ev.exit # 0 THEN {"demo-failed"} ELSE {})
                       \cup (IF ev.parallel /\ ev.cores > 0 /\ \E k \in 1..Len(ev.regions) : ev.regions[k] # ev.cores
                               THEN {"cores-option-ignored"} ELSE {}))
TNext == l <= Len(Tr) /\ l' = l + 1 /\ LET ev == Tr[l] IN TReset(ev) \/ TSet(ev) \/ TRegion(ev) \/ TDemo(ev)
TSpec == TInit /\ [][TNext]_<<l, want>>
Accepted == TLCGet("stats").diameter - 1 = Len(Tr)
=============================================================================
