------------------------------- MODULE HopBfs -------------------------------
(***************************************************************************)
(* C15 / C06, implementation-shaped: the hop-bounded reachability test     *)
(* is_bfs_reachable(g, s, t, max_hops) of detail/bfs.hpp, the decision     *)
(* procedure of the greedy spanner (an edge is dropped iff its ends are    *)
(* within 2k-1 hops).  One action per loop iteration (pop; hop test;       *)
(* target test; push the unvisited neighbours).  The order in which the    *)
(* neighbours of a vertex enter the queue is the out-edge order of the     *)
(* adjacency list, i.e. an accident of insertion order: left OPEN (every   *)
(* permutation).  The source is never marked visited (the code relies on   *)
(* the explicit  w == s  test), exactly as in the code.                    *)
(* Checked: whenever the procedure returns, the answer is                  *)
(*      HopDist(s, t) <= max_hops ,                                        *)
(* for every simple graph, every s, t, every bound - and it returns.       *)
(* Variant names the two slips that seeded changes made here:              *)
(*   "bound-inclusive"  : returns false when d_u >= max_hops               *)
(*   "target-first"     : tests u = t before the hop bound                 *)
(* both are refuted by TLC (MC_HopBfs_pinned*.cfg), the second one only    *)
(* under particular queue orders.                                          *)
(***************************************************************************)
EXTENDS Graphs, GraphGen
CONSTANTS N, HMAX, Variant
VARIABLES G, s, t, h, queue, dist, visited, result
hvars == <<G, s, t, h, queue, dist, visited, result>>

HInit == /\ G \in AllSimpleUpTo(N, {1})
         /\ G.n >= 1
         /\ s \in V(G) /\ t \in V(G) /\ h \in 0..HMAX
         /\ queue = <<s>> /\ dist = [v \in V(G) |-> IF v = s THEN 0 ELSE -1]
         /\ visited = {} /\ result = "running"

Neigh(u) == {Other(G, e, u) : e \in {x \in EIdx(G) : Inc(G, x, u)}}
Perms(S) == {p \in [1..Cardinality(S) -> S] : \A i, j \in 1..Cardinality(S) : i # j => p[i] # p[j]}

Return(r) == result' = r /\ UNCHANGED <<G, s, t, h, queue, dist, visited>>
Expand(u) ==
  LET fresh == {w \in Neigh(u) : w # s /\ w \notin visited} IN
  \E p \in Perms(fresh) :
     /\ queue' = Tail(queue) \o p
     /\ dist' = [v \in V(G) |-> IF v \in fresh THEN dist[u] + 1 ELSE dist[v]]
     /\ visited' = visited \cup fresh
     /\ UNCHANGED <<G, s, t, h, result>>
Step ==
  /\ result = "running" /\ queue # <<>>
  /\ LET u == Head(queue) IN
     CASE Variant = "code" ->
            IF dist[u] > h THEN Return("false") ELSE IF u = t THEN Return("true") ELSE Expand(u)
       [] Variant = "bound-inclusive" ->
            IF dist[u] >= h THEN Return("false") ELSE IF u = t THEN Return("true") ELSE Expand(u)
       [] Variant = "target-first" ->
            IF u = t THEN Return("true") ELSE IF dist[u] > h THEN Return("false") ELSE Expand(u)
Exhausted == /\ result = "running" /\ queue = <<>> /\ Return("false")
HNext == Step \/ Exhausted
HSpec == HInit /\ [][HNext]_hvars /\ WF_hvars(HNext)

Answer == HopDist(G, EIdx(G), s)[t] <= h
Correct == result # "running" => (result = "true") = Answer
\* the queue holds vertices in non-decreasing distance, each labelled with its true hop distance
QueueInv == /\ \A i \in 1..Len(queue) : dist[queue[i]] = HopDist(G, EIdx(G), s)[queue[i]]
            /\ \A i, j \in 1..Len(queue) : i < j => dist[queue[i]] <= dist[queue[j]]
Terminates == <>(result # "running")
=============================================================================
