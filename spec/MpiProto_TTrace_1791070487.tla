---- MODULE MpiProto_TTrace_1791070487 ----
EXTENDS Sequences, TLCExt, Toolbox, Naturals, TLC, MpiProto

_expression ==
    LET MpiProto_TEExpression == INSTANCE MpiProto_TEExpression
    IN MpiProto_TEExpression!expression
----

_trace ==
    LET MpiProto_TETrace == INSTANCE MpiProto_TETrace
    IN MpiProto_TETrace!trace
----

_inv ==
    ~(
        TLCGet("level") = Len(_TETrace)
        /\
        valid = (FALSE)
        /\
        pcs = ((0 :> 1 @@ 1 :> 1 @@ 2 :> 1))
        /\
        variant = ("signed")
        /\
        done = ((0 :> TRUE @@ 1 :> FALSE @@ 2 :> FALSE))
        /\
        branch = (<<FALSE>>)
    )
----

_init ==
    /\ pcs = _TETrace[1].pcs
    /\ variant = _TETrace[1].variant
    /\ done = _TETrace[1].done
    /\ valid = _TETrace[1].valid
    /\ branch = _TETrace[1].branch
----

_next ==
    /\ \E i,j \in DOMAIN _TETrace:
        /\ \/ /\ j = i + 1
              /\ i = TLCGet("level")
        /\ pcs  = _TETrace[i].pcs
        /\ pcs' = _TETrace[j].pcs
        /\ variant  = _TETrace[i].variant
        /\ variant' = _TETrace[j].variant
        /\ done  = _TETrace[i].done
        /\ done' = _TETrace[j].done
        /\ valid  = _TETrace[i].valid
        /\ valid' = _TETrace[j].valid
        /\ branch  = _TETrace[i].branch
        /\ branch' = _TETrace[j].branch

\* Uncomment the ASSUME below to write the states of the error trace
\* to the given file in Json format. Note that you can pass any tuple
\* to `JsonSerialize`. For example, a sub-sequence of _TETrace.
    \* ASSUME
    \*     LET J == INSTANCE Json
    \*         IN J!JsonSerialize("MpiProto_TTrace_1791070487.json", _TETrace)

=============================================================================

 Note that you can extract this module `MpiProto_TEExpression`
  to a dedicated file to reuse `expression` (the module in the 
  dedicated `MpiProto_TEExpression.tla` file takes precedence 
  over the module `MpiProto_TEExpression` below).

---- MODULE MpiProto_TEExpression ----
EXTENDS Sequences, TLCExt, Toolbox, Naturals, TLC, MpiProto

expression == 
    [
        \* To hide variables of the `MpiProto` spec from the error trace,
        \* remove the variables below.  The trace will be written in the order
        \* of the fields of this record.
        pcs |-> pcs
        ,variant |-> variant
        ,done |-> done
        ,valid |-> valid
        ,branch |-> branch
        
        \* Put additional constant-, state-, and action-level expressions here:
        \* ,_stateNumber |-> _TEPosition
        \* ,_pcsUnchanged |-> pcs = pcs'
        
        \* Format the `pcs` variable as Json value.
        \* ,_pcsJson |->
        \*     LET J == INSTANCE Json
        \*     IN J!ToJson(pcs)
        
        \* Lastly, you may build expressions over arbitrary sets of states by
        \* leveraging the _TETrace operator.  For example, this is how to
        \* count the number of times a spec variable changed up to the current
        \* state in the trace.
        \* ,_pcsModCount |->
        \*     LET F[s \in DOMAIN _TETrace] ==
        \*         IF s = 1 THEN 0
        \*         ELSE IF _TETrace[s].pcs # _TETrace[s-1].pcs
        \*             THEN 1 + F[s-1] ELSE F[s-1]
        \*     IN F[_TEPosition - 1]
    ]

=============================================================================



Parsing and semantic processing can take forever if the trace below is long.
 In this case, it is advised to uncomment the module below to deserialize the
 trace from a generated binary file.

\*
\*---- MODULE MpiProto_TETrace ----
\*EXTENDS IOUtils, TLC, MpiProto
\*
\*trace == IODeserialize("MpiProto_TTrace_1791070487.bin", TRUE)
\*
\*=============================================================================
\*

---- MODULE MpiProto_TETrace ----
EXTENDS TLC, MpiProto

trace == 
    <<
    ([valid |-> FALSE,pcs |-> (0 :> 1 @@ 1 :> 1 @@ 2 :> 1),variant |-> "signed",done |-> (0 :> FALSE @@ 1 :> FALSE @@ 2 :> FALSE),branch |-> <<FALSE>>]),
    ([valid |-> FALSE,pcs |-> (0 :> 1 @@ 1 :> 1 @@ 2 :> 1),variant |-> "signed",done |-> (0 :> TRUE @@ 1 :> FALSE @@ 2 :> FALSE),branch |-> <<FALSE>>])
    >>
----


=============================================================================

---- CONFIG MpiProto_TTrace_1791070487 ----
CONSTANTS
    P = 3
    CMAX = 3
    Gate = "rank0"

INVARIANT
    _inv

CHECK_DEADLOCK
    \* CHECK_DEADLOCK off because of PROPERTY or INVARIANT above.
    FALSE

INIT
    _init

NEXT
    _next

CONSTANT
    _TETrace <- _trace

ALIAS
    _expression
=============================================================================
\* Generated on Sat Oct 03 23:34:49 UTC 2026