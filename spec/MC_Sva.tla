------------------------------- MODULE MC_Sva -------------------------------
(***************************************************************************)
(* C01/C02, implementation-shaped: the support-vector scheme (de Pina) that *)
(* all exact variants share (parmcb_sva_signed.hpp, parmcb_sva_trees.hpp,  *)
(* the TBB and MPI variants), with every choice the code makes by          *)
(* heuristics or by accident left OPEN:                                    *)
(*   - the spanning forest behind ForestIndex (any spanning forest),       *)
(*   - which remaining support vector is used in phase k (the "sparsest    *)
(*     support" swap: any j >= k),                                         *)
(*   - which minimum-weight odd cycle the search returns (any element of   *)
(*     the cycle space of minimum weight with <C, S_k> = 1; ties broken in *)
(*     any way, by any schedule, rank or heap order).                      *)
(* One action per phase: Phase(j) = swap; search; update supports;      *)
(* emit.  TLC checks that every behaviour is a behaviour of Mcb (each Emit *)
(* enabled, Return with the optimum) - i.e. de Pina's theorem for every    *)
(* resolution of the non-determinism - plus the orthogonality invariant.   *)
(***************************************************************************)
EXTENDS Mcb, GraphGen
CONSTANTS N, WS
VARIABLES phase,    \* number of completed phases
          S,        \* sequence of support vectors (sets of non-forest edge indices)
          forest    \* the spanning forest chosen by the indexing
svars == <<pc, G, out, basis, phase, S, forest>>

SpanningForests(g) == {F \in SUBSET EIdx(g) : IsSpanningForest(g, F)}
SInit == /\ G \in AllSimple(N, WS)
         /\ forest \in SpanningForests(G)
         /\ S = SetToSeq(({{e} : e \in EIdx(G) \ forest}))
         /\ pc = "run" /\ out = <<>> /\ basis = <<>> /\ phase = 0
Odd(C, T) == Cardinality(C \cap T) % 2 = 1
MinOddCycles(T) ==
  LET odd == {C \in CycleSpaceOf(G) : Odd(C, T)}
      m == Min({Wt(G, C) : C \in odd})
  IN {C \in odd : Wt(G, C) = m}
\* PhaseC(j, C): phase k = phase + 1 uses the support that currently sits at position j and emits the cycle C
PhaseC(j, C) ==
  /\ pc = "run" /\ phase < Len(S)
  /\ j \in (phase + 1)..Len(S)
  /\ LET k == phase + 1
         Sw == [S EXCEPT ![k] = S[j], ![j] = S[k]]          \* swap
     IN /\ C \in MinOddCycles(Sw[k])
        /\ S' = [l \in 1..Len(S) |-> IF l > k /\ Odd(C, Sw[l]) THEN XorS(Sw[l], Sw[k]) ELSE Sw[l]]
        /\ out' = Append(out, C) /\ basis' = Insert(C, basis)
  /\ phase' = phase + 1
  /\ UNCHANGED <<pc, G, forest>>
Phase(j) == \E C \in (IF phase < Len(S) /\ j \in (phase + 1)..Len(S) THEN MinOddCycles(S[j]) ELSE {}) : PhaseC(j, C)
Finish == /\ pc = "run" /\ phase = Len(S) /\ pc' = "idle"
          /\ UNCHANGED <<G, out, basis, phase, S, forest>>
SNext == (\E j \in 1..Len(S) : Phase(j)) \/ Finish
SSpec == SInit /\ [][SNext]_svars

\* ---- what TLC checks -------------------------------------------------------------------
DimOK == Len(S) = Dim(G)
\* remaining supports are orthogonal to every emitted cycle, and a minimum odd cycle always exists
Orthogonal == \A l \in (phase + 1)..Len(S) : \A c \in 1..Len(out) : ~Odd(out[c], S[l])
SearchNeverFails == (pc = "run" /\ phase < Len(S)) => \A j \in (phase + 1)..Len(S) : \E C \in CycleSpaceOf(G) : Odd(C, S[j])
\* refinement of Mcb: every emitted cycle passed Mcb!Emit's guard (checked on the state after the step)
EmitsAllowed == \A c \in 1..Len(out) : IsSimpleCycle(G, out[c]) /\ Independent(SubSeq(out, 1, c))
ReturnAllowed == pc = "idle" => ReturnViol([ret |-> SumWt(G, out), frac |-> 0, tol |-> 0]) = {}
=============================================================================
