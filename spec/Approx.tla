------------------------------- MODULE Approx -------------------------------
(***************************************************************************)
(* C05 / C06: API-level specification of ONE call of an approximate entry  *)
(* point  approx_mcb_sva_*(g, w, k, out).  Same observable steps as Mcb    *)
(* (Call ; Emit* ; Return | Threw); Emit has the guards of Mcb!Emit (a     *)
(* simple cycle of the CALLER's graph, independent of what was emitted),   *)
(* Return requires a complete basis whose true weight is the returned      *)
(* value and at most (2k-1) times the optimum (equal for k = 1).  k = 0    *)
(* must be rejected by an exception before anything is emitted.            *)
(***************************************************************************)
EXTENDS Mcb
VARIABLE kk                      \* the parameter k of the current call
avars == <<pc, G, out, basis, kk>>

ACall(g, k) == Call(g) /\ kk' = k
AEmitViol(cl) == EmitViol(cl) \cup (IF kk = 0 THEN {"k0-emitted-something"} ELSE {})
AReturnViol(r) ==
  IF kk = 0 THEN {"k0-not-rejected"}
  ELSE LET opt == Opt(G)
           sum == SumWt(G, out)
       IN   (IF Len(out) # Dim(G) THEN {"wrong-count"} ELSE {})
       \cup (IF ~Close(r, sum) THEN {"ret-ne-emitted-weight"} ELSE {})
       \cup (IF sum > (2 * kk - 1) * opt.w THEN {"exceeds-(2k-1)-optimum"} ELSE {})
       \cup (IF kk = 1 /\ sum # opt.w THEN {"k1-not-minimum"} ELSE {})
       \cup (IF Len(out) = Dim(G) /\ sum < opt.w THEN {"lighter-than-optimum"} ELSE {})
ADegradedReturnViol(r, ws) ==          \* after a rejected Emit (see Mcb!DegradedReturnViol): the weight clauses only
  IF kk = 0 THEN {"k0-not-rejected"}
  ELSE IF ws < 0 THEN {}
  ELSE LET opt == Opt(G) IN
            (IF ~Close(r, ws) THEN {"ret-ne-emitted-weight"} ELSE {})
       \cup (IF ws > (2 * kk - 1) * opt.w THEN {"exceeds-(2k-1)-optimum"} ELSE {})
       \cup (IF kk = 1 /\ ws # opt.w THEN {"k1-not-minimum"} ELSE {})
AThrewViol == IF kk = 0 THEN (IF Len(out) # 0 THEN {"k0-emitted-something"} ELSE {}) ELSE {"threw-on-valid-input"}
C05Clauses == {"empty-cycle", "duplicate-edge", "foreign-edge", "not-simple-cycle", "dependent", "too-many-cycles",
               "wrong-count", "ret-ne-emitted-weight", "lighter-than-optimum", "threw-on-valid-input", "crash", "bad-input"}
C06Clauses == {"exceeds-(2k-1)-optimum", "k1-not-minimum", "k0-not-rejected", "k0-emitted-something", "crash", "bad-input"}
=============================================================================
