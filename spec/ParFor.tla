-------------------------------- MODULE ParFor --------------------------------
(***************************************************************************)
(* C03, data-race clause.  A parallel region is a set of tasks (the chunks *)
(* of a parallel_for, the leaves of a parallel_reduce) that may run        *)
(* concurrently.  Each task has a footprint on the shared element arrays   *)
(* (tbb::concurrent_vector): the elements it TOUCHED (read or written) and  *)
(* the elements it WROTE.  The region is free of conflicting unsynchronised *)
(* accesses iff no element written by one task is touched by another.       *)
(*                                                                         *)
(* Implementation-shaped part: the support-vector update of phase k        *)
(* (parmcb_sva_signed_tbb.hpp, mpi/parmcb_sva_signed.hpp): the rows        *)
(* First..CSD-1 are partitioned into chunks; the task of a chunk reads row  *)
(* k and reads/writes only its own rows.  First = k + 1 is the code;        *)
(* First = k is the named deviation (a range that includes the shared row)  *)
(* refuted by MC_ParFor_pinned.cfg.                                         *)
(***************************************************************************)
EXTENDS Naturals, Integers, Sequences, FiniteSets, TLC
\* tasks: sequence of [touched |-> set, written |-> set]
Conflicts(tasks) == {p \in (1..Len(tasks)) \X (1..Len(tasks)) : p[1] # p[2] /\ tasks[p[1]].written \cap tasks[p[2]].touched # {}}
RegionViol(tasks) == IF Conflicts(tasks) # {} THEN {"conflicting-access-between-tasks"} ELSE {}

CONSTANTS CSD, FirstOffset        \* FirstOffset = 1 (code) or 0 (deviation)
VARIABLES k, cuts, odd
fvars == <<k, cuts, odd>>
First == k + FirstOffset
Init == /\ k \in 0..(CSD - 1)
        /\ cuts \in SUBSET ((First + 1)..(CSD - 1))       \* chunk boundaries: any partition of First..CSD-1
        /\ odd \in SUBSET (0..(CSD - 1))                  \* rows whose product with the new cycle is 1 (they get updated)
Next == UNCHANGED fvars
Bounds == LET s == {First, CSD} \cup cuts IN [i \in 1..Cardinality(s) |-> CHOOSE x \in s : Cardinality({y \in s : y < x}) = i - 1]
Tasks == IF First >= CSD THEN <<>> ELSE
         [i \in 1..(Len(Bounds) - 1) |->
            LET rows == Bounds[i]..(Bounds[i + 1] - 1)
            IN [touched |-> rows \cup (IF rows \cap odd # {} THEN {k} ELSE {}),     \* support[i] * cyclek, then support[i] += support[k]
                written |-> rows \cap odd]]
NoConflict == RegionViol(Tasks) = {}
=============================================================================
