CONSTANTS N = 4 HMAX = 4 Variant = "target-first"
SPECIFICATION HSpec
INVARIANTS Correct
CHECK_DEADLOCK FALSE
