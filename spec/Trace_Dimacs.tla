---------------------------- MODULE Trace_Dimacs ----------------------------
(* Trace specification for C10: observed results of read_dimacs_from_file and of the three validators. *)
EXTENDS DimacsOps, Graphs, Json, IOUtils
Tr == ndJsonDeserialize(IOEnv.TRACE)
VARIABLES l
Report(v) == IF v = {} THEN TRUE ELSE PrintT(<<"REJECT", l, l, v>>)
ValidViol(ev) ==
  LET g == [n |-> ev.n, edges |-> ev.edges] IN
       (IF ev.loops # HasLoop(g) THEN {"has_loops"} ELSE {})
  \cup (IF ev.nonpos # HasNonPositive(g) THEN {"has_non_positive_weights"} ELSE {})
  \cup (IF ~HasLoop(g) /\ ev.multi # HasParallel(g) THEN {"has_multiple_edges"} ELSE {})
Viol(ev) == CASE ev.e = "Read" -> ReadViol(ev.file, ev)
              [] ev.e = "Valid" -> ValidViol(ev)
              [] ev.e = "Crash" -> {"crash"}
              [] OTHER -> {"unknown-event"}
TInit == l = 1
TNext == l <= Len(Tr) /\ l' = l + 1 /\ Report(Viol(Tr[l]))
TSpec == TInit /\ [][TNext]_l
Accepted == TLCGet("stats").diameter - 1 = Len(Tr)
=============================================================================
