---- MODULE Concurrency_TTrace_1791070434 ----
EXTENDS Sequences, TLCExt, Concurrency, Toolbox, Naturals, TLC

_expression ==
    LET Concurrency_TEExpression == INSTANCE Concurrency_TEExpression
    IN Concurrency_TEExpression!expression
----

_trace ==
    LET Concurrency_TETrace == INSTANCE Concurrency_TETrace
    IN Concurrency_TETrace!trace
----

_inv ==
    ~(
        TLCGet("level") = Len(_TETrace)
        /\
        nextid = (2)
        /\
        pc = ("idle")
        /\
        held = (0)
        /\
        calls = (1)
        /\
        want = (1)
        /\
        arg = (1)
        /\
        live = ({})
        /\
        seen = (0)
    )
----

_init ==
    /\ pc = _TETrace[1].pc
    /\ want = _TETrace[1].want
    /\ live = _TETrace[1].live
    /\ arg = _TETrace[1].arg
    /\ held = _TETrace[1].held
    /\ calls = _TETrace[1].calls
    /\ nextid = _TETrace[1].nextid
    /\ seen = _TETrace[1].seen
----

_next ==
    /\ \E i,j \in DOMAIN _TETrace:
        /\ \/ /\ j = i + 1
              /\ i = TLCGet("level")
        /\ pc  = _TETrace[i].pc
        /\ pc' = _TETrace[j].pc
        /\ want  = _TETrace[i].want
        /\ want' = _TETrace[j].want
        /\ live  = _TETrace[i].live
        /\ live' = _TETrace[j].live
        /\ arg  = _TETrace[i].arg
        /\ arg' = _TETrace[j].arg
        /\ held  = _TETrace[i].held
        /\ held' = _TETrace[j].held
        /\ calls  = _TETrace[i].calls
        /\ calls' = _TETrace[j].calls
        /\ nextid  = _TETrace[i].nextid
        /\ nextid' = _TETrace[j].nextid
        /\ seen  = _TETrace[i].seen
        /\ seen' = _TETrace[j].seen

\* Uncomment the ASSUME below to write the states of the error trace
\* to the given file in Json format. Note that you can pass any tuple
\* to `JsonSerialize`. For example, a sub-sequence of _TETrace.
    \* ASSUME
    \*     LET J == INSTANCE Json
    \*         IN J!JsonSerialize("Concurrency_TTrace_1791070434.json", _TETrace)

=============================================================================

 Note that you can extract this module `Concurrency_TEExpression`
  to a dedicated file to reuse `expression` (the module in the 
  dedicated `Concurrency_TEExpression.tla` file takes precedence 
  over the module `Concurrency_TEExpression` below).

---- MODULE Concurrency_TEExpression ----
EXTENDS Sequences, TLCExt, Concurrency, Toolbox, Naturals, TLC

expression == 
    [
        \* To hide variables of the `Concurrency` spec from the error trace,
        \* remove the variables below.  The trace will be written in the order
        \* of the fields of this record.
        pc |-> pc
        ,want |-> want
        ,live |-> live
        ,arg |-> arg
        ,held |-> held
        ,calls |-> calls
        ,nextid |-> nextid
        ,seen |-> seen
        
        \* Put additional constant-, state-, and action-level expressions here:
        \* ,_stateNumber |-> _TEPosition
        \* ,_pcUnchanged |-> pc = pc'
        
        \* Format the `pc` variable as Json value.
        \* ,_pcJson |->
        \*     LET J == INSTANCE Json
        \*     IN J!ToJson(pc)
        
        \* Lastly, you may build expressions over arbitrary sets of states by
        \* leveraging the _TETrace operator.  For example, this is how to
        \* count the number of times a spec variable changed up to the current
        \* state in the trace.
        \* ,_pcModCount |->
        \*     LET F[s \in DOMAIN _TETrace] ==
        \*         IF s = 1 THEN 0
        \*         ELSE IF _TETrace[s].pc # _TETrace[s-1].pc
        \*             THEN 1 + F[s-1] ELSE F[s-1]
        \*     IN F[_TEPosition - 1]
    ]

=============================================================================



Parsing and semantic processing can take forever if the trace below is long.
 In this case, it is advised to uncomment the module below to deserialize the
 trace from a generated binary file.

\*
\*---- MODULE Concurrency_TETrace ----
\*EXTENDS IOUtils, Concurrency, TLC
\*
\*trace == IODeserialize("Concurrency_TTrace_1791070434.bin", TRUE)
\*
\*=============================================================================
\*

---- MODULE Concurrency_TETrace ----
EXTENDS Concurrency, TLC

trace == 
    <<
    ([nextid |-> 1,pc |-> "idle",held |-> 0,calls |-> 0,want |-> 0,arg |-> 0,live |-> {},seen |-> 0]),
    ([nextid |-> 1,pc |-> "construct",held |-> 0,calls |-> 1,want |-> 0,arg |-> 1,live |-> {},seen |-> 0]),
    ([nextid |-> 2,pc |-> "destruct",held |-> 0,calls |-> 1,want |-> 0,arg |-> 1,live |-> {<<1, 1>>},seen |-> 0]),
    ([nextid |-> 2,pc |-> "return",held |-> 0,calls |-> 1,want |-> 0,arg |-> 1,live |-> {},seen |-> 0]),
    ([nextid |-> 2,pc |-> "idle",held |-> 0,calls |-> 1,want |-> 1,arg |-> 1,live |-> {},seen |-> 0])
    >>
----


=============================================================================

---- CONFIG Concurrency_TTrace_1791070434 ----
CONSTANTS
    HW = 16
    VALUES = { 1 , 2 , 3 , 16 , 20 }
    MAXCALLS = 3
    Shape = "local"

INVARIANT
    _inv

CHECK_DEADLOCK
    \* CHECK_DEADLOCK off because of PROPERTY or INVARIANT above.
    FALSE

INIT
    _init

NEXT
    _next

CONSTANT
    _TETrace <- _trace

ALIAS
    _expression
=============================================================================
\* Generated on Sat Oct 03 23:33:55 UTC 2026