CONSTANTS CSD = 1 FirstOffset = 1
SPECIFICATION TSpec
POSTCONDITION Accepted
CHECK_DEADLOCK FALSE
