-------------------------------- MODULE Demo --------------------------------
(***************************************************************************)
(* C11.  One run of a command-line program on a DIMACS file, observed from *)
(* outside: exit status, watchdog, stderr (diagnostic), stdout ("Using     *)
(* <algorithm>" = an algorithm was started, "MCB weight = w").             *)
(*   gate:  the file's graph has a loop, a repeated vertex pair or a       *)
(*          weight <= 0  =>  non-zero exit, a diagnostic, no algorithm,     *)
(*          prompt termination (under MPI: of the whole job, any P)         *)
(*   valid: exit 0; mcb-dimacs / mcb-dimacs-mpi print Opt; approx-mcb-dimacs*)
(*          prints a weight in [Opt, (2k-1) Opt]; for every option          *)
(*          combination (hence identical across combinations).              *)
(* ev = [prog, k, P, n, edges, exit, timedout, diag, ranalgo, hasweight,    *)
(*       weight (x1000)]                                                    *)
(***************************************************************************)
EXTENDS CycleSpace
Invalid(g) == HasLoop(g) \/ HasParallel(g) \/ HasNonPositive(g)
\* rank_exits: per-rank exit status when the run was observed rank by rank (vmpi), <<>> otherwise
DemoViol(ev) ==
  LET g == [n |-> ev.n, edges |-> ev.edges] IN
  IF ev.timedout THEN {"did-not-terminate"}
  ELSE IF Invalid(g) THEN
         (IF ev.exit = 0 THEN {"accepted-invalid-input"} ELSE {})
    \cup (IF \E k \in 1..Len(ev.rank_exits) : ev.rank_exits[k] = 0 THEN {"some-rank-accepted-invalid-input"} ELSE {})
    \cup (IF ~ev.diag THEN {"no-diagnostic"} ELSE {})
    \cup (IF ev.ranalgo \/ ev.hasweight THEN {"ran-algorithm-on-invalid-input"} ELSE {})
  ELSE (IF ev.exit # 0 THEN {"nonzero-exit-on-valid-input"} ELSE
          IF ev.prog = "collection-stats-dimacs" THEN {}
          ELSE IF ~ev.hasweight THEN {"no-weight-printed"}
          ELSE LET opt == Opt(g).w * 1000 IN
               IF ev.prog = "approx-mcb-dimacs"
                 THEN (IF ev.weight < opt \/ ev.weight > (2 * ev.k - 1) * opt THEN {"approx-weight-out-of-range"} ELSE {})
                 ELSE (IF ev.weight # opt THEN {"printed-weight-not-optimum"} ELSE {}))
=============================================================================
