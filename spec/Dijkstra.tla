------------------------------ MODULE Dijkstra ------------------------------
(***************************************************************************)
(* C05 / C06, implementation-shaped: detail/dijkstra.hpp, the search that  *)
(* closes every non-spanner edge with a shortest spanner path (and that    *)
(* the hop-free parts of the approximate variants share).  One action per  *)
(* iteration of the outer loop: pop a vertex of minimum tentative distance *)
(* (ties: ANY - the 4-ary indirect heap breaks them by an accident of its  *)
(* layout), relax its out-edges in ANY order.  As in the code the source   *)
(* is never marked visited and is protected by the  w == s  test.          *)
(* Checked, for every simple weighted graph and source:                    *)
(*   at termination dist = the shortest-path distances on the reached      *)
(*   vertices, exactly the reachable vertices are reached, and every       *)
(*   predecessor edge is tight (d[u] + w(e) = d[v]) - i.e. following pred   *)
(*   from any vertex walks a shortest path to the source;                  *)
(*   during the run: a popped vertex already has its final distance.       *)
(* Variant names slips that seeded changes made in searches of this shape: *)
(*   "stale-distance" : an improved label updates pred but not dist        *)
(*   "no-decrease"    : an already reached vertex is never improved        *)
(*   "stop-at-first"  : (with a target) return when the target is first    *)
(*                      DISCOVERED instead of when it is popped            *)
(***************************************************************************)
EXTENDS Graphs, GraphGen
CONSTANTS N, WS, Variant
VARIABLES G, s, tgt, heap, dist, pred, visited, done, popped,
          D        \* ghost: the true distance table of G (computed once, read by the invariants only)
dvars == <<G, s, tgt, heap, dist, pred, visited, done, popped, D>>

DInit == /\ G \in AllSimpleUpTo(N, WS) /\ G.n >= 1
         /\ s \in V(G)
         /\ tgt \in (IF Variant = "stop-at-first" THEN V(G) \ {s} ELSE {-1})
         /\ heap = {s} /\ dist = [v \in V(G) |-> IF v = s THEN 0 ELSE -1]
         /\ pred = [v \in V(G) |-> 0] /\ visited = {} /\ done = FALSE /\ popped = {}
         /\ D = Dist(G)

OutEdges(u) == {e \in EIdx(G) : Inc(G, e, u)}
\* relax the out-edges of u one after the other, in the order given by the sequence es
RECURSIVE Relax(_, _, _)
Relax(u, es, st) ==
  IF es = <<>> \/ st.stop THEN st
  ELSE LET e == Head(es)
           w == Other(G, e, u)
           c == st.dist[u] + W(G, e)
       IN IF w = s THEN Relax(u, Tail(es), st)
          ELSE IF w \notin st.visited
               THEN Relax(u, Tail(es), [st EXCEPT !.dist[w] = c, !.pred[w] = e, !.visited = @ \cup {w}, !.heap = @ \cup {w},
                                                   !.stop = (Variant = "stop-at-first" /\ w = tgt)])
          ELSE IF c < st.dist[w] /\ Variant # "no-decrease"
               THEN Relax(u, Tail(es), [st EXCEPT !.dist[w] = IF Variant = "stale-distance" THEN @ ELSE c, !.pred[w] = e])
          ELSE Relax(u, Tail(es), st)
Perms(S) == {p \in [1..Cardinality(S) -> S] : \A i, j \in 1..Cardinality(S) : i # j => p[i] # p[j]}
Pop(u) ==
  /\ ~done /\ u \in heap /\ \A x \in heap : dist[u] <= dist[x]
  /\ \E es \in Perms(OutEdges(u)) :
       LET st == Relax(u, es, [dist |-> dist, pred |-> pred, visited |-> visited, heap |-> heap \ {u}, stop |-> FALSE]) IN
       /\ dist' = st.dist /\ pred' = st.pred /\ visited' = st.visited /\ heap' = st.heap
       /\ done' = st.stop
  /\ popped' = popped \cup {u}
  /\ UNCHANGED <<G, s, tgt, D>>
Finish == ~done /\ heap = {} /\ done' = TRUE /\ UNCHANGED <<G, s, tgt, heap, dist, pred, visited, popped, D>>
DNext == (\E u \in V(G) : Pop(u)) \/ Finish
DSpec == DInit /\ [][DNext]_dvars /\ WF_dvars(DNext)

Reached == visited \cup {s}
Final ==
  done =>
    IF Variant = "stop-at-first"
    THEN (tgt \in visited => dist[tgt] = D[<<s, tgt>>])            \* what a caller that stops early relies on
    ELSE /\ Reached = {v \in V(G) : D[<<s, v>>] < Inf}
         /\ \A v \in Reached : dist[v] = D[<<s, v>>]
         /\ \A v \in visited : /\ pred[v] \in OutEdges(v)
                               /\ dist[Other(G, pred[v], v)] + W(G, pred[v]) = dist[v]
PoppedFinal == \A v \in popped : dist[v] = D[<<s, v>>]
Terminates == <>done
=============================================================================
