CONSTANTS N = 4 WS = {1}
INIT Init
NEXT Next
INVARIANTS AllVertices OptimumIsSimple HiddenEdges
CHECK_DEADLOCK FALSE
