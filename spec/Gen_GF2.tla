------------------------------- MODULE Gen_GF2 -------------------------------
(* Generation for C17: every transition (state, operation) of the SpVecGF2 register machine, so that  *)
(* the replay harness executes one implementation test per transition of the specification.           *)
EXTENDS SpVecGF2, Json, IOUtils
States == [Regs -> SUBSET Coords]
Trans == {[regs |-> [k \in 1..R |-> SetToSortSeq(s[k-1], <)], o |-> o] : s \in States, o \in Ops}
ASSUME ndJsonSerialize(IOEnv.GEN_OUT, SetToSeq(Trans))
GInit == r = [k \in Regs |-> {}]
GNext == UNCHANGED r
=============================================================================
