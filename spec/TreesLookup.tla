----------------------------- MODULE TreesLookup -----------------------------
(***************************************************************************)
(* C01/C02 (tree-based variants), implementation-shaped: the per-phase      *)
(* search of parmcb_sva_trees.hpp / sptrees.hpp.                            *)
(* For a support vector S every tree gets parities (update_parities:        *)
(* parity(v) = number of S-edges on the tree path root -> v, mod 2); a       *)
(* candidate (x, e = uv) is odd iff parity_x(u) xor parity_x(v) xor [e in S];*)
(* CandidateCycleBuilder rebuilds the cycle from the two root paths and      *)
(* rejects it if they share an edge; the lookup returns the first odd valid  *)
(* candidate of the weight-sorted collection.                                *)
(* Theorem checked for every graph in the bound and EVERY S: for the Horton  *)
(* collection, for the FVS collection of every feedback vertex set and for   *)
(* the isometric collection, the lightest odd valid candidate has exactly    *)
(* the weight of the lightest odd element of the whole cycle space - so each *)
(* phase of the tree variants is a legitimate phase of MC_Sva.               *)
(***************************************************************************)
EXTENDS CollOps
CONSTANTS N, WS
VARIABLES G, S
\* two levels so that TLC's workers share the work: one initial state per graph, one successor per support vector
Unset == {0}
Init == G \in AllSimple(N, WS) /\ S = Unset
Next == S = Unset /\ S' \in SUBSET EIdx(G) /\ UNCHANGED G

Par(tr, x, u) == Cardinality(TreePath(G, tr[x], u) \cap S) % 2
OddCand(tr, c) == (Par(tr, c[1], Src(G, c[2])) + Par(tr, c[1], Dst(G, c[2])) + (IF c[2] \in S THEN 1 ELSE 0)) % 2 = 1
ValidCand(tr, c) == TreePath(G, tr[c[1]], Src(G, c[2])) \cap TreePath(G, tr[c[1]], Dst(G, c[2])) = {}
LookupWeight(tr, cands) ==
  LET ok == {c \in cands : OddCand(tr, c) /\ ValidCand(tr, c)}
  IN IF ok = {} THEN Inf ELSE Min({Wt(G, CycleOf(G, tr, c)) : c \in ok})
\* the parity rule agrees with the definition <C, S> = 1 on every valid candidate
ParityRuleSound == S = Unset \/
  LET tr == TreesOf(G) H == HortonSeq(G, tr) IN
  \A i \in 1..Len(H) : ValidCand(tr, H[i]) => (OddCand(tr, H[i]) <=> Cardinality(CycleOf(G, tr, H[i]) \cap S) % 2 = 1)
Target == MinOddWeight(G, S)
HortonLookup == S = Unset \/ LET tr == TreesOf(G) H == HortonSeq(G, tr) IN LookupWeight(tr, {H[i] : i \in 1..Len(H)}) = Target
IsFvs(F) == IsForest(G, {e \in EIdx(G) : Src(G, e) \notin F /\ Dst(G, e) \notin F})
FvsLookup == S = Unset \/ LET tr == TreesOf(G) H == HortonSeq(G, tr) IN
             \A F \in SUBSET V(G) : IsFvs(F) => LookupWeight(tr, {H[i] : i \in {j \in 1..Len(H) : H[j][1] \in F}}) = Target
IsoLookup == S = Unset \/ LET tr == TreesOf(G) IN LookupWeight(tr, IsoOut(G, tr)) = Target
=============================================================================
