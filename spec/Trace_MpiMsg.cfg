CONSTANTS N = 0 WS = {}
SPECIFICATION TSpec
INVARIANT Orth
POSTCONDITION Accepted
CHECK_DEADLOCK FALSE
