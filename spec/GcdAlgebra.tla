----------------------------- MODULE GcdAlgebra -----------------------------
(***************************************************************************)
(* C18, proof layer (TLAPS).  The arithmetic facts behind fp<T>::ext_gcd   *)
(* for UNBOUNDED integers (the model checker covers |a|,|b| <= K only):    *)
(*  StepPreservesBezout  one loop iteration (_a[i] -= q*_a[1-i], same for  *)
(*                       _x, _y) keeps both columns integer combinations   *)
(*                       of the original operands;                         *)
(*  ExitGivesBezout      the sign fix-up at the exit turns a combination   *)
(*                       of |a|, |b| into one of a, b.                      *)
(***************************************************************************)
EXTENDS Integers, TLAPS
Abs(v) == IF v < 0 THEN -v ELSE v
Sg(v) == IF v < 0 THEN -1 ELSE 1

THEOREM StepPreservesBezout ==
  \A a1, a2, x1, x2, y1, y2, B, S, q \in Int :
     (a1 = x1 * B + y1 * S /\ a2 = x2 * B + y2 * S)
       => (a1 - q * a2 = (x1 - q * x2) * B + (y1 - q * y2) * S)
  OBVIOUS

THEOREM SignFixup == \A a \in Int : Sg(a) * a = Abs(a) /\ Abs(a) >= 0
  BY DEF Sg, Abs

THEOREM ExitGivesBezout ==
  \A a, b, x, y, g \in Int :
     (g = x * Abs(a) + y * Abs(b)) => (g = (x * Sg(a)) * a + (y * Sg(b)) * b)
  BY DEF Sg, Abs
=============================================================================
