---------------------------- MODULE Trace_Approx ----------------------------
(* Trace specification for the approximate entry points and the spanner observations (C05 C06 C15). *)
EXTENDS Approx, Components, Json, IOUtils
Tr == ndJsonDeserialize(IOEnv.TRACE)
VARIABLES l, cl, skip
tvars == <<l, cl, skip, pc, G, out, basis, kk>>
Report(v) == IF v = {} THEN TRUE ELSE PrintT(<<"REJECT", cl, l, v>>)
GraphOf(ev) == [n |-> ev.n, edges |-> ev.edges]
TInit == MInit /\ kk = 1 /\ l = 1 /\ cl = 0 /\ skip = FALSE
TCall(ev) ==
  /\ ev.e = "Call" /\ cl' = l
  /\ IF InDomain(GraphOf(ev))
       THEN pc' = "run" /\ G' = GraphOf(ev) /\ out' = <<>> /\ basis' = <<>> /\ skip' = FALSE /\ kk' = ev.k
       ELSE PrintT(<<"REJECT", l, l, {"bad-input"}>>) /\ skip' = TRUE /\ UNCHANGED avars
TEmit(ev) ==
  /\ ev.e = "Emit" /\ UNCHANGED <<cl, kk>>
  /\ IF skip THEN UNCHANGED <<skip, pc, G, out, basis>>
     ELSE LET v == AEmitViol(ev.cyc) IN
          IF v = {} THEN Emit(ev.cyc) /\ UNCHANGED skip
          ELSE Report(v) /\ skip' = TRUE /\ UNCHANGED mvars
TEnd(ev) ==
  /\ ev.e \in {"Return", "Threw", "Crash"} /\ UNCHANGED <<cl, kk>>
  /\ (skip \/ Report(CASE ev.e = "Return" -> AReturnViol(ev) [] ev.e = "Threw" -> AThrewViol [] OTHER -> {"crash"}))
  /\ skip' = FALSE /\ pc' = "idle" /\ UNCHANGED <<G, out, basis>>
TSpanner(ev) ==
  /\ ev.e = "Spanner" /\ cl' = l
  /\ PrintT(<<"SPANNER", Len(ev.dropped)>>)
  /\ LET g == GraphOf(ev)
         v == IF ~InDomain(g) THEN {"bad-input"} ELSE
              (IF ev.sn # ev.n THEN {"spanner-vertex-set-differs"} ELSE {}) \cup SpannerViol(g, ev.k, ev.kept, ev.dropped)
     IN IF v = {} THEN TRUE ELSE PrintT(<<"REJECT", l, l, v>>)
  /\ UNCHANGED <<skip, pc, G, out, basis, kk>>
TNext == /\ l <= Len(Tr) /\ l' = l + 1
         /\ LET ev == Tr[l] IN TCall(ev) \/ TEmit(ev) \/ TEnd(ev) \/ TSpanner(ev)
TSpec == TInit /\ [][TNext]_tvars
Accepted == TLCGet("stats").diameter - 1 = Len(Tr)
=============================================================================
