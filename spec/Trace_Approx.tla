---------------------------- MODULE Trace_Approx ----------------------------
(* Trace specification for the approximate entry points and the spanner observations (C05 C06 C15). *)
EXTENDS Approx, Components, Json, IOUtils
Tr == ndJsonDeserialize(IOEnv.TRACE)
VARIABLES l, cl, skip, deg, wsum          \* deg / wsum: see Trace_Mcb
tvars == <<l, cl, skip, deg, wsum, pc, G, out, basis, kk>>
Report(v) == IF v = {} THEN TRUE ELSE PrintT(<<"REJECT", cl, l, v>>)
GraphOf(ev) == [n |-> ev.n, edges |-> ev.edges]
TInit == MInit /\ kk = 1 /\ l = 1 /\ cl = 0 /\ skip = FALSE /\ deg = FALSE /\ wsum = 0
TCall(ev) ==
  /\ ev.e = "Call" /\ cl' = l /\ deg' = FALSE /\ wsum' = 0
  /\ IF InDomain(GraphOf(ev))
       THEN pc' = "run" /\ G' = GraphOf(ev) /\ out' = <<>> /\ basis' = <<>> /\ skip' = FALSE /\ kk' = ev.k
       ELSE PrintT(<<"REJECT", l, l, {"bad-input"}>>) /\ skip' = TRUE /\ UNCHANGED avars
TEmit(ev) ==
  /\ ev.e = "Emit" /\ UNCHANGED <<cl, kk>>
  /\ wsum' = (IF skip /\ ~deg THEN wsum ELSE AddW(wsum, ev.cyc))
  /\ IF skip THEN UNCHANGED <<skip, deg, pc, G, out, basis>>
     ELSE LET v == AEmitViol(ev.cyc) IN
          IF v = {} THEN Emit(ev.cyc) /\ UNCHANGED <<skip, deg>>
          ELSE Report(v) /\ skip' = TRUE /\ deg' = TRUE /\ UNCHANGED mvars
TEnd(ev) ==
  /\ ev.e \in {"Return", "Threw", "Crash"} /\ UNCHANGED <<cl, kk, wsum>> /\ deg' = FALSE
  /\ (IF skip THEN (IF deg /\ ev.e = "Return" THEN Report(ADegradedReturnViol(ev, wsum)) ELSE TRUE) ELSE Report(CASE ev.e = "Return" -> AReturnViol(ev) [] ev.e = "Threw" -> AThrewViol [] OTHER -> {"crash"}))
  /\ skip' = FALSE /\ pc' = "idle" /\ UNCHANGED <<G, out, basis>>
TSpanner(ev) ==
  /\ ev.e = "Spanner" /\ cl' = l
  /\ PrintT(<<"SPANNER", Len(ev.dropped)>>)
  /\ LET g == GraphOf(ev)
         v == IF ~InDomain(g) THEN {"bad-input"} ELSE
              (IF ev.sn # ev.n THEN {"spanner-vertex-set-differs"} ELSE {}) \cup SpannerViol(g, ev.k, ev.kept, ev.dropped)
     IN IF v = {} THEN TRUE ELSE PrintT(<<"REJECT", l, l, v>>)
  /\ UNCHANGED <<skip, deg, wsum, pc, G, out, basis, kk>>
TNext == /\ l <= Len(Tr) /\ l' = l + 1
         /\ LET ev == Tr[l] IN TCall(ev) \/ TEmit(ev) \/ TEnd(ev) \/ TSpanner(ev)
TSpec == TInit /\ [][TNext]_tvars
Accepted == TLCGet("stats").diameter - 1 = Len(Tr)
=============================================================================
