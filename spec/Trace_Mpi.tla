------------------------------ MODULE Trace_Mpi ------------------------------
(* Trace specification for C04: one event sequence per run of an MPI entry point on P ranks.  Rank 0's   *)
(* output must be a behaviour of Mcb; in addition every rank returns and only rank 0 emits.                *)
EXTENDS Mcb, Json, IOUtils
Tr == ndJsonDeserialize(IOEnv.TRACE)
VARIABLES l, cl, skip, deg, wsum          \* deg / wsum: see Trace_Mcb
tvars == <<l, cl, skip, deg, wsum, pc, G, out, basis>>
Report(v) == IF v = {} THEN TRUE ELSE PrintT(<<"REJECT", cl, l, v>>)
GraphOf(ev) == [n |-> ev.n, edges |-> ev.edges]
TInit == MInit /\ l = 1 /\ cl = 0 /\ skip = FALSE /\ deg = FALSE /\ wsum = 0
TCall(ev) ==
  /\ ev.e = "Call" /\ cl' = l /\ deg' = FALSE /\ wsum' = 0
  /\ IF InDomain(GraphOf(ev))
       THEN pc' = "run" /\ G' = GraphOf(ev) /\ out' = <<>> /\ basis' = <<>> /\ skip' = FALSE
       ELSE PrintT(<<"REJECT", l, l, {"bad-input"}>>) /\ skip' = TRUE /\ UNCHANGED mvars
TEmit(ev) ==
  /\ ev.e = "Emit" /\ UNCHANGED cl
  /\ wsum' = (IF skip /\ ~deg THEN wsum ELSE AddW(wsum, ev.cyc))
  /\ IF skip THEN UNCHANGED <<skip, deg, pc, G, out, basis>>
     ELSE LET v == EmitViol(ev.cyc) IN
          IF v = {} THEN Emit(ev.cyc) /\ UNCHANGED <<skip, deg>>
          ELSE Report(v) /\ skip' = TRUE /\ deg' = TRUE /\ UNCHANGED mvars
RanksViol(ev) ==
       (IF \E k \in 1..Len(ev.ranks) : ~ev.ranks[k].returned THEN {"rank-did-not-return"} ELSE {})
  \cup (IF \E k \in 1..Len(ev.ranks) : ev.ranks[k].rank # 0 /\ ev.ranks[k].ncyc # 0 THEN {"non-root-rank-emitted"} ELSE {})
TReturn(ev) ==
  /\ ev.e = "Return" /\ UNCHANGED <<cl, wsum>> /\ deg' = FALSE
  /\ IF skip THEN Report(RanksViol(ev) \cup (IF deg /\ "rank-did-not-return" \notin RanksViol(ev) THEN DegradedReturnViol(ev, wsum) ELSE {})) ELSE
       LET rv == RanksViol(ev) IN
       Report(IF "rank-did-not-return" \in rv THEN rv ELSE rv \cup ReturnViol(ev))
  /\ skip' = FALSE /\ pc' = "idle" /\ UNCHANGED <<G, out, basis>>
TOther(ev) == /\ ev.e \in {"Crash", "LayoutError"} /\ UNCHANGED <<cl, wsum>> /\ deg' = FALSE
              /\ (IF ev.e = "Crash" THEN Report({"crash"}) ELSE PrintT(<<"LAYOUTERROR", l>>))
              /\ skip' = FALSE /\ pc' = "idle" /\ UNCHANGED <<G, out, basis>>
TNext == /\ l <= Len(Tr) /\ l' = l + 1
         /\ LET ev == Tr[l] IN TCall(ev) \/ TEmit(ev) \/ TReturn(ev) \/ TOther(ev)
TSpec == TInit /\ [][TNext]_tvars
Accepted == TLCGet("stats").diameter - 1 = Len(Tr)
=============================================================================
