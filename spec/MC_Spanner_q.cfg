CONSTANTS N = 4 WS = {1,2} KS = {1,2,3}
SPECIFICATION SSpec
INVARIANTS SpannerRefines GirthInv StretchInv ApproxBound
CHECK_DEADLOCK FALSE
