CONSTANTS N = 4  WS = {1,2}  CheckAllBases = TRUE
INIT Init
NEXT Next
INVARIANTS T1 T2 T3 T4
CHECK_DEADLOCK FALSE
