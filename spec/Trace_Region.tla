---------------------------- MODULE Trace_Region ----------------------------
(***************************************************************************)
(* Region-level binding for C03 (diagnostic layer): every parallel_reduce  *)
(* region executed by the vtbb shim is logged as its schedule tree with,   *)
(* per node, the value it started from and the value it produced (the      *)
(* library's partial result projected to [found, w]).  Each recorded       *)
(* region must be an execution of ParRegion's small-step machine:          *)
(*   shape     children split the parent's range                           *)
(*   seeding   root and stolen right halves start from the identity, a     *)
(*             left half starts from its parent's start value, a non-      *)
(*             stolen right half from its left sibling's result            *)
(*   leaf      a body either keeps its running value or replaces it by a   *)
(*             strictly lighter found result                               *)
(*   join      a stolen node's result is Join(left, right) up to ties; a   *)
(*             non-stolen node's result is its right half's result         *)
(* This binds the shim (trusted base) and the library's body / join        *)
(* lambdas to the specification step by step.  The step invariants are     *)
(* stronger than the API-level property (a wrong join can be masked), so   *)
(* rejections are counted as region_anomalies and never reported as a      *)
(* VIOLATION by themselves.                                                *)
(***************************************************************************)
EXTENDS Naturals, Integers, Sequences, FiniteSets, TLC, Json, IOUtils
Tr == ndJsonDeserialize(IOEnv.TRACE)
VARIABLE l
Same(a, b) == a.found = b.found /\ (a.found => a.w = b.w)
IsMinOf(j, a, b) == /\ j.found = (a.found \/ b.found)
                    /\ (j.found => (a.found /\ j.w = a.w) \/ (b.found /\ j.w = b.w))
                    /\ (a.found => j.w <= a.w) /\ (b.found => j.w <= b.w)
NodeViol(ns, i, initExpected) ==
  LET x == ns[i] IN
       (IF ~Same(x.init, initExpected) THEN {"task-seeded-with-wrong-value"} ELSE {})
  \cup (IF x.leaf
          THEN (IF Same(x.res, x.init) \/ (x.res.found /\ (~x.init.found \/ x.res.w < x.init.w)) THEN {} ELSE {"leaf-result-not-monotone"})
          ELSE (IF ns[x.l].lo # x.lo \/ ns[x.r].hi # x.hi \/ ns[x.l].hi # ns[x.r].lo \/ ns[x.l].hi <= x.lo \/ ns[x.l].hi >= x.hi
                  THEN {"children-do-not-split-the-range"} ELSE {})
               \cup (IF x.stolen THEN (IF IsMinOf(x.res, ns[x.l].res, ns[x.r].res) THEN {} ELSE {"join-is-not-the-minimum-of-its-operands"})
                     ELSE (IF Same(x.res, ns[x.r].res) THEN {} ELSE {"continued-body-lost-its-value"})))
NotFound == [found |-> FALSE, w |-> 0]
RECURSIVE Walk(_, _, _)
Walk(ns, i, init) ==
  LET x == ns[i] IN
  NodeViol(ns, i, init) \cup
  (IF x.leaf \/ x.l \notin 1..Len(ns) \/ x.r \notin 1..Len(ns) THEN {}
   ELSE Walk(ns, x.l, init) \cup Walk(ns, x.r, IF x.stolen THEN NotFound ELSE ns[x.l].res))
RegionViol(ev) == IF Len(ev.nodes) = 0 THEN {} ELSE
                  (IF ev.nodes[1].lo # 0 \/ ev.nodes[1].hi # ev.n THEN {"root-is-not-the-whole-range"} ELSE {}) \cup Walk(ev.nodes, 1, NotFound)
Report(v) == IF v = {} THEN TRUE ELSE PrintT(<<"REJECT", l, l, v>>)
TInit == l = 1
TNext == l <= Len(Tr) /\ l' = l + 1 /\ Report(RegionViol(Tr[l]))
TSpec == TInit /\ [][TNext]_l
Accepted == TLCGet("stats").diameter - 1 = Len(Tr)
=============================================================================
