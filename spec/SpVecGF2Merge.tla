--------------------------- MODULE SpVecGF2Merge ---------------------------
(* C17, implementation-shaped: the two-pointer loops of SpVecGF2::operator+ and operator* on sorted   *)
(* coordinate lists, one action per loop iteration, checked against GF(2) arithmetic for every pair. *)
EXTENDS SpVecGF2
\* ---- implementation-shaped model of the merge loops (spvecgf2.hpp:118-156 and :68-88) ----------
\* state of one run of operator+ on sorted lists x, y
VARIABLES x, y, i, j, out, acc
mvars == <<x, y, i, j, out, acc>>
SortedOf(S) == SetToSortSeq(S, <)
MInit == /\ x \in {SortedOf(S) : S \in SUBSET Coords} /\ y \in {SortedOf(S) : S \in SUBSET Coords}
         /\ i = 1 /\ j = 1 /\ out = <<>> /\ acc = 0
\* one iteration of the main while loop of operator+ (and of operator* in lock-step: same pointer moves)
MStep == /\ i <= Len(x) /\ j <= Len(y)
         /\ IF x[i] > y[j] THEN out' = Append(out, y[j]) /\ j' = j + 1 /\ i' = i /\ acc' = acc
            ELSE IF x[i] < y[j] THEN out' = Append(out, x[i]) /\ i' = i + 1 /\ j' = j /\ acc' = acc
            ELSE out' = out /\ i' = i + 1 /\ j' = j + 1 /\ acc' = (acc + 1) % 2
         /\ UNCHANGED <<x, y>>
\* the two "append remaining stuff" loops
MDrainX == /\ (i > Len(x) \/ j > Len(y)) /\ i <= Len(x)
           /\ out' = Append(out, x[i]) /\ i' = i + 1 /\ UNCHANGED <<x, y, j, acc>>
MDrainY == /\ (i > Len(x) \/ j > Len(y)) /\ i > Len(x) /\ j <= Len(y)
           /\ out' = Append(out, y[j]) /\ j' = j + 1 /\ UNCHANGED <<x, y, i, acc>>
MNext == MStep \/ MDrainX \/ MDrainY
MDone == i > Len(x) /\ j > Len(y)
MergeCorrect == MDone => Canonical(out, XorS(AsSet(x), AsSet(y)))
DotCorrect == (i > Len(x) \/ j > Len(y)) => acc = Parity(AsSet(x) \cap AsSet(y))
MergeInv == /\ StrictlyIncreasing(out)
            /\ AsSet(out) = XorS({x[k] : k \in 1..(i-1)}, {y[k] : k \in 1..(j-1)})
MInit2 == MInit /\ r = [k \in Regs |-> {}]
MNext2 == MNext /\ UNCHANGED r
=============================================================================
