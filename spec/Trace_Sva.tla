------------------------------ MODULE Trace_Sva ------------------------------
(***************************************************************************)
(* Per-phase binding of the exact variants to MC_Sva (diagnostic layer):   *)
(* the recorded emission order Call ; Emit(C1) ; ... ; Emit(CN) ; Return    *)
(* must be a behaviour of the support-vector machine, where the support     *)
(* vectors are NOT logged: TLC infers them - at every Emit it tries every   *)
(* position j of the remaining supports (the swap the code's heuristic may   *)
(* have made) for which the logged cycle is a minimum odd cycle.  The       *)
(* spanning forest is the one ForestIndex reports (public API, logged in    *)
(* the Call event).  The trace is accepted iff SOME branch consumes every   *)
(* event: TLC then reports the invariant NotDone violated.                  *)
(* This is stronger than C01/C02 (a different correct algorithm could emit  *)
(* in another order), so a rejection is recorded as a phase anomaly in the  *)
(* evidence and never as a VIOLATION on its own.                            *)
(***************************************************************************)
EXTENDS MC_Sva, Json, IOUtils
Tr == ndJsonDeserialize(IOEnv.TRACE)
VARIABLE l
tvars == <<l, pc, G, out, basis, phase, S, forest>>
GraphOf(ev) == [n |-> ev.n, edges |-> ev.edges]
TInit == /\ l = 1 /\ pc = "idle" /\ G = EmptyGraph /\ out = <<>> /\ basis = <<>> /\ phase = 0 /\ S = <<>> /\ forest = {}
TCall(ev) == /\ ev.e = "Call"
             /\ G' = GraphOf(ev) /\ forest' = SeqToSet(ev.forest)
             /\ S' = SetToSeq({{e} : e \in EIdx(GraphOf(ev)) \ SeqToSet(ev.forest)})
             /\ pc' = "run" /\ out' = <<>> /\ basis' = <<>> /\ phase' = 0
TEmit(ev) == ev.e = "Emit" /\ \E j \in 1..Len(S) : PhaseC(j, SeqToSet(ev.cyc))
TReturn(ev) == ev.e = "Return" /\ Finish
TNext == /\ l <= Len(Tr) /\ l' = l + 1
         /\ LET ev == Tr[l] IN TCall(ev) \/ TEmit(ev) \/ TReturn(ev)
TSpec == TInit /\ [][TNext]_tvars
NotDone == l <= Len(Tr)
=============================================================================
