CONSTANTS K = 20 Variant = "pinned"
SPECIFICATION ESpec
INVARIANTS BezoutInv PostCondition
CHECK_DEADLOCK FALSE
