CONSTANTS N = 5 VMAX = 3
SPECIFICATION PSpec
INVARIANTS ResultCorrect SmallStepMatchesEval PartialSound
CHECK_DEADLOCK FALSE
