------------------------------ MODULE BiDijkstra ------------------------------
(***************************************************************************)
(* C02 (search half), implementation-shaped: bidirectional_signed_dijkstra  *)
(* (detail/signed_dijkstra.hpp) step by step on the signed graph of (G, S): *)
(* two frontiers (forward from <<v,+>>, backward from the target <<tv,tpos>>) that          *)
(* alternate one poll at a time, the meeting test after every relaxation,   *)
(* the stopping rule  min(front) + min(other) >= best , and the pruning by  *)
(* a cycle-weight limit (polls and relaxations at or beyond the limit are    *)
(* dropped, the search gives up when a polled distance reaches the limit).   *)
(* Left open: which of several minimum entries a frontier polls.            *)
(* Checked for every graph in the bound, every S, every start vertex and    *)
(* every limit in Limits:                                                   *)
(*    found    =>  the reported weight is the true signed distance and < limit *)
(*    ~found   =>  the true signed distance is >= limit (or there is no path)  *)
(* i.e. the early termination and the pruning never lose a lighter odd       *)
(* closed walk than the limit allows.                                        *)
(***************************************************************************)
EXTENDS CycleSpace, GraphGen
CONSTANTS N, WS, Limits,           \* Limits: set of limits, 0 = no limit
          LimitFactor              \* 1 = the code; 2 = the named deviation "each frontier only needs to go half-way"
                                   \* (refuted by MC_BiDijkstra_pinned.cfg: the frontiers alternate by polls, not by distance)
VARIABLES G, S, v, tv, tpos, hid, lim,   \* the instance: search from <<v,+>> to <<tv,tpos>> avoiding the hidden edges hid
          dist, seen, queue,       \* per frontier (1 = forward, 2 = backward): tentative distances, reached set, queue
          turn, best, done, result
bvars == <<G, S, v, tv, tpos, hid, lim, dist, seen, queue, turn, best, done, result>>

SNodes(g) == V(g) \X BOOLEAN
Src0 == <<v, TRUE>>
Tgt0 == <<tv, tpos>>
SourceOf(f) == IF f = 1 THEN Src0 ELSE Tgt0
\* signed neighbours of node x: <<node, weight>> over all edges incident to x[1]
Nbrs(x) == {<<<<Other(G, e, x[1]), IF e \in S THEN ~x[2] ELSE x[2]>>, W(G, e)>> : e \in {i \in EIdx(G) \ hid : Inc(G, i, x[1])}}

BInit == /\ G \in AllSimple(N, WS) /\ S \in SUBSET EIdx(G) /\ v \in V(G) /\ lim \in Limits
         /\ tv \in V(G) /\ tpos \in BOOLEAN /\ <<tv, tpos>> # <<v, TRUE>>
         \* the two uses in the code: <<v,+>> -> <<v,->> with nothing hidden, or the endpoints of a signed edge with that
         \* edge (and possibly further signed edges) hidden
         /\ hid \in {{}} \cup {{e} : e \in S} \cup {S}
         /\ (tv = v => hid = {})
         /\ dist = [f \in 1..2 |-> [x \in SNodes(G) |-> IF x = SourceOf(f) THEN 0 ELSE Inf]]
         /\ seen = [f \in 1..2 |-> {SourceOf(f)}]
         /\ queue = [f \in 1..2 |-> {SourceOf(f)}]
         /\ turn = 1 /\ best = Inf /\ done = FALSE /\ result = -1
Limited == lim # 0
MinQ(f) == IF queue[f] = {} THEN Inf ELSE Min({dist[f][x] : x \in queue[f]})
Stop == queue[turn] = {} \/ queue[3 - turn] = {} \/ (best < Inf /\ ~(MinQ(turn) + MinQ(3 - turn) < best))
Finish == /\ ~done /\ Stop
          /\ done' = TRUE
          /\ result' = IF best >= Inf \/ (Limited /\ ~(best < lim)) THEN -1 ELSE best
          /\ UNCHANGED <<G, S, v, tv, tpos, hid, lim, dist, seen, queue, turn, best>>
\* poll ANY minimum entry u of the current frontier, relax all its edges, test for meetings, swap frontiers
Poll(u) ==
  /\ ~done /\ ~Stop /\ u \in queue[turn] /\ dist[turn][u] = MinQ(turn)
  /\ IF Limited /\ ~(LimitFactor * dist[turn][u] < lim)
       THEN done' = TRUE /\ result' = -1 /\ UNCHANGED <<dist, seen, queue, turn, best>>
       ELSE LET f == turn
                o == 3 - turn
                du == dist[f][u]
                rel == {p \in Nbrs(u) : ~(Limited /\ ~(du + p[2] < lim))}                 \* relaxations that survive the limit
                newd == [x \in SNodes(G) |->
                           IF x = SourceOf(f) THEN 0
                           ELSE LET cs == {du + p[2] : p \in {q \in rel : q[1] = x}} IN
                                IF cs = {} THEN dist[f][x] ELSE MinI(dist[f][x], Min(cs))]
                reached == {p[1] : p \in rel} \ {SourceOf(f)}
                meets == {du + p[2] + dist[o][p[1]] : p \in {q \in rel : q[1] \in seen[o]}}
            IN /\ dist' = [dist EXCEPT ![f] = newd]
               /\ seen' = [seen EXCEPT ![f] = seen[f] \cup reached]
               /\ queue' = [queue EXCEPT ![f] = (queue[f] \ {u}) \cup {x \in reached : x \notin seen[f] \/ newd[x] < dist[f][x]}]
               /\ best' = IF meets = {} THEN best ELSE MinI(best, Min(meets))
               /\ turn' = o
               /\ UNCHANGED <<done, result>>
  /\ UNCHANGED <<G, S, v, tv, tpos, hid, lim>>
BNext == Finish \/ \E u \in SNodes(G) : Poll(u)
BSpec == BInit /\ [][BNext]_bvars

\* ---- the true signed distance (Floyd-Warshall on the signed graph) -----------------------
SD0 == TLCEval([p \in SNodes(G) \X SNodes(G) |->
          IF p[1] = p[2] THEN 0
          ELSE LET ws == {q[2] : q \in {r \in Nbrs(p[1]) : r[1] = p[2]}} IN IF ws = {} THEN Inf ELSE Min(ws)])
RECURSIVE SFW(_, _)
SFW(d, todo) == IF todo = {} THEN d
                ELSE LET k == CHOOSE x \in todo : TRUE
                     IN SFW(TLCEval([p \in SNodes(G) \X SNodes(G) |-> MinI(d[p], d[<<p[1], k>>] + d[<<k, p[2]>>])]), todo \ {k})
TrueDist == SFW(SD0, SNodes(G))[<<Src0, Tgt0>>]
Correct == done =>
             IF result = -1 THEN (TrueDist >= Inf \/ (Limited /\ TrueDist >= lim))
             ELSE result = TrueDist /\ (Limited => result < lim)
\* a queued entry may be re-queued after an improvement: a settled node's distance never changes afterwards
BestIsAPath == best < Inf => best >= TrueDist
=============================================================================
