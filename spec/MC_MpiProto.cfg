CONSTANTS P = 3 CMAX = 3 Gate = "all"
SPECIFICATION Spec
INVARIANTS NoMismatch NeverStuck
PROPERTY AllReturn
CHECK_DEADLOCK FALSE
